"""Contracts on ffcx/codegeneration/definitions.py and access.table_access (C01, C02, C05, C08)."""
import types

import z3

import ffcx.codegeneration.lnodes as L
from contracts.c_symbols import COEF, CONST
from ffcx.codegeneration.access import FFCXBackendAccess
from ffcx.codegeneration.definitions import FFCXBackendDefinitions
from ffcx.codegeneration.symbols import FFCXBackendSymbols
from pyvc.contract import Bool, Const, Contract, Custom, Enum
from pyvc.values import SV

TABLE = "FE7_C0_Q0a1b2c3d"
ENTITY = Enum("cell", "facet", "vertex", "ridge")


def tabledata(ttypes):
    def make(interp, name):
        nd = SV(z3.Int("num_dofs"), "int")
        bs = SV(z3.Int("block_size"), "int")
        begin = SV(z3.Int("begin"), "int")
        interp.ctx.assume(z3.And(nd.z >= 1, bs.z >= 1, begin.z >= 0))
        tt = ttypes[interp.ctx.decide(len(ttypes), "ttype")]
        uni = tt in ("fixed", "uniform", "ones", "zeros")
        pw = tt in ("fixed", "piecewise", "ones", "zeros")
        perm = False if tt in ("ones", "zeros") else interp.ctx.decide(2, "is_permuted") == 1
        values = types.SimpleNamespace(shape=(1, 1, 1, nd))
        return types.SimpleNamespace(name=TABLE, ttype=tt, values=values, block_size=bs, offset=begin, is_uniform=uni,
                                     is_piecewise=pw, is_permuted=perm, has_tensor_factorisation=False, tensor_factors=None)

    return Custom(make)


def backend(entity_type_holder):
    def make(interp, name):
        off = SV(z3.Int("coefficient_offset"), "int")
        interp.ctx.assume(off.z >= 0)
        symbols = FFCXBackendSymbols({COEF: 0}, {COEF: off}, {CONST: 0})
        symbols.element_tables[TABLE] = L.Symbol(TABLE, L.DataType.REAL)
        et = ["cell", "facet", "vertex"][interp.ctx.decide(3, "entity_type")]
        acc = FFCXBackendAccess(et, "cell", symbols, {})
        interp.ctx.ghost["entity_type"] = et
        return FFCXBackendDefinitions(et, "cell", acc, {})

    return Custom(make)


QRULE = Const(types.SimpleNamespace(weights=types.SimpleNamespace(size=7), has_tensor_factors=False, tensor_factors=None))
RESTR = Enum(None, "+", "-")

# value of the table factor: FE[qp][entity][iq][ic] with the axes collapsed as the table type says
TABLE_VALUE = ("env.mem(TABLE, [(env.mem('quadrature_permutation', [1 if mt.restriction == '-' else 0]) if tabledata.is_permuted else 0),"
               " (0 if (tabledata.is_uniform or ghost('entity_type') == 'cell') else env.mem('entity_local_index',"
               " [1 if (ghost('entity_type') == 'facet' and mt.restriction == '-') else 0])),"
               " (0 if tabledata.is_piecewise else env.sym('iq')), env.sym('ic')])")


def register(reg):
    reg.spec_globals["TABLE"] = TABLE
    reg.add(Contract(
        "ffcx/codegeneration/definitions.py::FFCXBackendDefinitions.coefficient",
        dict(self=backend(None), mt=Custom(lambda it, n: types.SimpleNamespace(terminal=COEF, restriction=[None, "+", "-"][it.ctx.decide(3, "restriction")])),
             tabledata=tabledata(["varying", "piecewise", "uniform", "fixed", "ones"]), quadrature_rule=QRULE,
             access=Const(L.Symbol("w0_c1", L.DataType.SCALAR))),
        ghost_names=["entity_type"],
        ensures=[
            # either no definition (constant coefficient referenced directly) or  acc = 0; for ic < num_dofs: acc += w[...] * FE[...]
            "implies(isinstance(result, list), result == [] and tabledata.ttype == 'ones' and tabledata.values.shape[3] == 1)",
            "implies(not isinstance(result, list), len(result.declarations) == 1 and result.declarations[0].symbol is access"
            " and ev(result.declarations[0].value, env) == 0)",
            "implies(not isinstance(result, list), isinstance(result.statements[0], L.ForRange) and result.statements[0].index.name == 'ic'"
            " and ev(result.statements[0].begin, env) == 0 and ev(result.statements[0].end, env) == tabledata.values.shape[3])",
            "implies(not isinstance(result, list), isinstance(loop_stmt(result), L.AssignAdd) and loop_stmt(result).lhs is access)",
            # the packing contract: w[offset_k + begin + bs * ic] times the element table entry
            "implies(not isinstance(result, list), ev(loop_stmt(result).rhs, env) == env.mem('w', [self.symbols.coefficient_offsets[mt.terminal]"
            " + tabledata.offset + tabledata.block_size * env.sym('ic')]) * " + TABLE_VALUE + ")",
        ],
        properties=["C01", "C05", "C08", "C02"], modular=False, name="FFCXBackendDefinitions.coefficient",
        mutants=[("(ic.global_index) * bs + begin", "(ic.global_index + begin) * bs"),
                 ('if ttype == "ones" and end - begin == 1:', 'if ttype == "ones":')]))


def register_lincomb(reg):
    import basix.ufl
    import ufl

    meshes = {}

    def mk_mt(interp, name):
        if not meshes:
            for cell, deg, gd in (("triangle", 1, 2), ("triangle", 2, 2), ("hexahedron", 1, 3), ("interval", 1, 3)):
                meshes[(cell, deg)] = ufl.Mesh(basix.ufl.element("Lagrange", cell, deg, shape=(gd,)))
        keys = list(meshes)
        mesh = meshes[keys[interp.ctx.decide(len(keys), "mesh")]]
        term = [ufl.SpatialCoordinate(mesh), ufl.Jacobian(mesh)][interp.ctx.decide(2, "x or J")]
        n = mesh.ufl_coordinate_element()._sub_element.dim
        interp.ctx.ghost["nodes"] = n
        return types.SimpleNamespace(terminal=term, restriction=[None, "+", "-"][interp.ctx.decide(3, "restriction")])

    def td(interp, name):
        n = interp.ctx.ghost["nodes"]
        begin = SV(z3.Int("begin"), "int")
        interp.ctx.assume(z3.And(begin.z >= 0, begin.z <= 2))
        tt = ["varying", "piecewise", "uniform", "fixed"][interp.ctx.decide(4, "ttype")]
        perm = interp.ctx.decide(2, "is_permuted") == 1
        return types.SimpleNamespace(name=TABLE, ttype=tt, values=types.SimpleNamespace(shape=(1, 1, 1, n)), block_size=3, offset=begin,
                                     is_uniform=tt in ("fixed", "uniform"), is_piecewise=tt in ("fixed", "piecewise"), is_permuted=perm,
                                     has_tensor_factorisation=False, tensor_factors=None)

    reg.add(Contract(
        "ffcx/codegeneration/definitions.py::FFCXBackendDefinitions._define_coordinate_dofs_lincomb",
        dict(self=backend(None), mt=Custom(mk_mt), tabledata=Custom(td), quadrature_rule=QRULE, access=Const(L.Symbol("J_c1", L.DataType.REAL))),
        ghost_names=["entity_type", "nodes"],
        ensures=[
            "len(result.declarations) == 1 and result.declarations[0].symbol is access and ev(result.declarations[0].value, env) == 0",
            "isinstance(result.statements[0], L.ForRange) and result.statements[0].index.name == 'ic'"
            " and ev(result.statements[0].begin, env) == 0 and ev(result.statements[0].end, env) == ghost('nodes')",
            "isinstance(loop_stmt(result), L.AssignAdd) and loop_stmt(result).lhs is access",
            # UFCx layout coordinate_dofs[restriction][node][3]
            "ev(loop_stmt(result).rhs, env) == env.mem('coordinate_dofs', [3 * env.sym('ic') + tabledata.offset"
            " + (3 * ghost('nodes') if mt.restriction == '-' else 0)]) * " + TABLE_VALUE,
        ],
        properties=["C01", "C02", "C08"], modular=False, name="FFCXBackendDefinitions._define_coordinate_dofs_lincomb",
        bounded="coordinate elements: P1/P2 triangle, Q1 hexahedron, P1 interval in 3D",
        mutants=[("offset = num_scalar_dofs * dim", "offset = num_dofs"),
                 ("ic.global_index * dim + begin + offset", "ic.global_index + begin * dim + offset")]))


def register_table_access(reg):
    """access.table_access: index tuple (perm, entity, point, dof) with collapsed axes; tensor-product branch (C01, C03, C10)."""
    F1, F2 = "FE_TF0", "FE_TF1"

    def mk_self(interp, name):
        symbols = FFCXBackendSymbols({}, {}, {})
        for n in (TABLE, F1, F2):
            symbols.element_tables[n] = L.Symbol(n, L.DataType.REAL)
        return FFCXBackendAccess("cell", "cell", symbols, {})

    def mk_td(interp, name):
        tt = ["varying", "piecewise", "uniform", "fixed"][interp.ctx.decide(4, "ttype")]
        perm = interp.ctx.decide(2, "is_permuted") == 1
        tensor = interp.ctx.ghost["tensor"]
        tf = [types.SimpleNamespace(name=F1), types.SimpleNamespace(name=F2)] if tensor == 1 else None
        return types.SimpleNamespace(name=TABLE, is_uniform=tt in ("fixed", "uniform"), is_piecewise=tt in ("fixed", "piecewise"),
                                     is_permuted=perm, tensor_factors=tf)

    def mk_tensor(interp, name):
        # 0: plain rule and table; 1: tensor-product rule and factorised table; 2: tensor-product rule, table without factors
        t = interp.ctx.decide(3, "tensor-product indices")
        interp.ctx.ghost["tensor"] = t
        return t

    def mk_q(interp, name):
        if interp.ctx.ghost["tensor"]:
            return L.MultiIndex([L.Symbol("iq0", L.DataType.INT), L.Symbol("iq1", L.DataType.INT)], [4, 4])
        return L.MultiIndex([L.Symbol("iq", L.DataType.INT)], [7])

    def mk_d(interp, name):
        if interp.ctx.ghost["tensor"] == 1:
            return L.MultiIndex([L.Symbol("ic0", L.DataType.INT), L.Symbol("ic1", L.DataType.INT)], [3, 3])
        return L.MultiIndex([L.Symbol("ic", L.DataType.INT)], [6])

    PERM = "(env.mem('quadrature_permutation', [1 if restriction == '-' else 0]) if tabledata.is_permuted else 0)"
    ENT = ("(0 if (tabledata.is_uniform or entity_type == 'cell') else env.mem('entity_local_index',"
           " [1 if (entity_type == 'facet' and restriction == '-') else 0]))")
    reg.add(Contract(
        "ffcx/codegeneration/access.py::FFCXBackendAccess.table_access",
        dict(self=Custom(mk_self), tabledata=Custom(mk_td), entity_type=ENTITY, restriction=RESTR, quadrature_index=Custom(mk_q),
             dof_index=Custom(mk_d)),
        ghosts=dict(tensor=Custom(mk_tensor)),
        ensures=[
            "implies(tensor == 0, ev(result[0], env) == env.mem(TABLE, [" + PERM + ", " + ENT + ","
            " (0 if tabledata.is_piecewise else env.sym('iq')), env.sym('ic')]))",
            "implies(tensor != 1, [s.name for s in result[1]] == [TABLE])",
            # a table without tensor factors inside a tensor-product quadrature loop: the flattened (row-major) point index
            "implies(tensor == 2, ev(result[0], env) == env.mem(TABLE, [" + PERM + ", " + ENT + ","
            " (0 if tabledata.is_piecewise else 4 * env.sym('iq0') + env.sym('iq1')), env.sym('ic')]))",
            # sum factorisation: product over the directions of the 1D factor tables, same permutation / entity
            "implies(tensor == 1, ev(result[0], env) == env.mem('FE_TF0', [" + PERM + ", " + ENT + ", env.sym('iq0'), env.sym('ic0')])"
            " * env.mem('FE_TF1', [" + PERM + ", " + ENT + ", env.sym('iq1'), env.sym('ic1')]))",
            "implies(tensor == 1, [s.name for s in result[1]] == ['FE_TF0', 'FE_TF1'])",
        ],
        properties=["C01", "C02", "C03", "C08", "C10"], modular=False, name="FFCXBackendAccess.table_access",
        mutants=[("iq_i = quadrature_index.local_index(i)\n                ic_i = dof_index.local_index(i)",
                  "iq_i = quadrature_index.local_index(i)\n                ic_i = dof_index.local_index(0)"),
                 ('if restriction == "-":\n                qp = self.symbols.quadrature_permutation[1]', 'if restriction == "+":\n                qp = self.symbols.quadrature_permutation[1]')]))
