"""Contracts on ffcx/codegeneration/C/formatter.py (C07, C16, C19)."""
import types

import numpy as np
import z3

import ffcx.codegeneration.lnodes as L
from ffcx.codegeneration.C.formatter import Formatter
from pyvc.contract import Bool, Const, Contract, Custom, Enum, Int, OneOf, Rec
from pyvc.values import SV

F = "ffcx/codegeneration/C/formatter.py::"


def handler(cls):
    return Formatter.__dict__["__call__"].dispatcher.dispatch(cls)


class Values:
    """Stand-in for the numpy array of initial values (only .size/.shape are read by the handler itself)."""


def _real_arraydecl(native):
    a = native["arr"]
    vals = None if a.values is None else np.zeros(a.sizes)
    native = dict(native)
    native["arr"] = L.ArrayDecl(a.symbol, sizes=a.sizes, values=vals, const=bool(a.const))
    return native


def register(reg):
    register_structure(reg)
    fmt = Formatter("float64")

    # _build_initializer_lists is used modularly: its text never contains a storage-class keyword
    def build_init(interp, fn, args, kwargs):
        s = SV(z3.String("initializer"), "str")
        interp.ctx.assume(z3.Not(z3.Contains(s.z, z3.StringVal("static"))))
        interp.ctx.ghost.setdefault("externals", set()).add("_build_initializer_lists: text contains no 'static'")
        return s

    reg.effects[Formatter._build_initializer_lists] = build_init
    VALS = OneOf(Const(None), Rec(Values, size=Int(1), shape=Const((3,))))
    def mk_arr(interp, name):
        """Built by the REAL constructor (interpreted), so every field the class sets exists and is consistent."""
        sym = [L.Symbol("FE0", L.DataType.REAL), L.Symbol("temp_0", L.DataType.SCALAR)][interp.ctx.decide(2, "symbol")]
        sizes = [(3,), (40,), (2, 20)][interp.ctx.decide(3, "sizes")]
        vals = VALS.make(interp, name + ".values")
        const = SV(z3.Bool(name + ".const"), "bool")
        return interp.construct(L.ArrayDecl, [sym], dict(sizes=sizes, values=vals, const=const))

    ARR = Custom(mk_arr)
    reg.add(Contract(
        F + "Formatter.__call__[ArrayDecl]", dict(self=Const(fmt), arr=ARR), fn=handler(L.ArrayDecl),
        requires=["implies(arr.values is None, not arr.const)",
                  "implies(arr.values is not None, arr.values.size == prod(arr.sizes))"],
        fix_native=_real_arraydecl,
        ensures=[
            # static storage only together with const, and only for const tables
            "('static' in result) == (arr.const and arr.values is not None)",
            "implies('static' in result, 'static const ' in result)",
            "implies(arr.values is None, ' = ' not in result)",
        ],
        properties=["C07"], modular=False, name="C.Formatter[ArrayDecl]",
        mutants=[('cstr = "static const " if arr.const else ""', 'cstr = "static const " if arr.const else "static "')]))


def register_structure(reg):
    """Structural contracts of the expression handlers of both formatters (premise of L-UNPARSE): the text is the operator
    between the formatted children in order, each child optionally parenthesised, and the choice is fixed by the classes."""
    import z3

    from contracts import lnodes_shapes as S
    from contracts import spec
    from ffcx.codegeneration.numba.formatter import Formatter as NFormatter
    from pyvc import models
    from pyvc.contract import ListOf
    from pyvc.values import SLazy, SObj, fresh_name

    docf = z3.Function("doc", z3.IntSort(), z3.StringSort())

    def uid_of(interp, x):
        x = interp.resolve(x)
        if isinstance(x, SObj) and isinstance(x.origin, SLazy):
            return x.origin.uid
        return x.uid if hasattr(x, "uid") else id(x)

    fmts = {"C": Formatter("float64"), "numba": NFormatter("float64")}

    def doc_effect(interp, fn, args, kwargs):
        return SV(docf(z3.IntVal(uid_of(interp, args[-1]))), "str")

    for f in fmts.values():
        reg.effects[f] = doc_effect  # self(child) inside a handler: the child's text is an opaque atom
    reg.effects[spec_doc] = doc_effect

    def one_of(interp, fn, args, kwargs):
        x, alts = args
        zs = []
        for a in alts:
            z = models.as_bool_sv(interp, interp.compare(ast_eq(), x, a))
            if z is True or (z is not False and z3.is_true(z3.simplify(z.z))):
                return True
            zs.append(z)
        for z in zs:
            if z is not False and interp.ctx.valid(z.z)[0] == "proved":
                return True
        interp.ctx.notes.append("one_of: no alternative is valid on this path")
        return SV(z3.Bool(fresh_name("one_of_unproved")), "bool", havoc=True)

    reg.effects[spec.one_of] = one_of

    def node(cls, **fields):
        def make(interp, name):
            so = SObj(cls)
            so.origin = types.SimpleNamespace(name=name)
            for k, v in fields.items():
                so.fields[k] = v(interp, f"{name}.{k}")
            return so

        return Custom(make)

    LEX = S.lexpr
    binops = [L.Add, L.Sub, L.Mul, L.Div, L.EQ, L.NE, L.LT, L.GT, L.LE, L.GE, L.And, L.Or]
    for lang, Fcls, path in (("C", Formatter, "ffcx/codegeneration/C/formatter.py"), ("numba", NFormatter, "ffcx/codegeneration/numba/formatter.py")):
        disp = Fcls.__dict__["__call__"].dispatcher
        fmt = fmts[lang]
        for P in binops:
            h = disp.dispatch(P)
            opt = "({'&&': 'and', '||': 'or'}[oper.op] if lang_numba and oper.op in ('&&', '||') else oper.op)"
            reg.add(Contract(
                f"{path}::Formatter.__call__[{P.__name__}]", dict(self=Const(fmt), oper=node(P, lhs=LEX, rhs=LEX)), fn=h,
                ghosts=dict(lang_numba=Const(lang == "numba")),
                ensures=[f"one_of(result, [wrap(doc(oper.lhs), a) + ' ' + {opt} + ' ' + wrap(doc(oper.rhs), b)"
                         " for a in (False, True) for b in (False, True)])"],
                properties=["C16", "C18"] if lang == "numba" else ["C16", "C19"], modular=False, name=f"{lang}.Formatter[{P.__name__}]",
                max_paths=20000,
                mutants=([('return f"{lhs} {oper.op} {rhs}"', 'return f"{rhs} {oper.op} {lhs}"')] if (P is L.Sub and lang == "C") else [])))
        for P, n in ((L.Sum, 2), (L.Product, 3)):
            h = disp.dispatch(P)
            reg.add(Contract(
                f"{path}::Formatter.__call__[{P.__name__}]",
                dict(self=Const(fmt), oper=node(P, args=lambda it, nm, n=n: [LEX(it, f"{nm}[{i}]") for i in range(n)])), fn=h,
                ensures=[f"one_of(result, [(' ' + oper.op + ' ').join([wrap(doc(oper.args[i]), b[i]) for i in range({n})]) for b in bools({n})])"],
                properties=["C16"], modular=False, name=f"{lang}.Formatter[{P.__name__}{n}]", max_paths=40000, bounded=f"{n} operands"))
        for P in (L.Neg,) + ((L.Not,) if lang == "C" else ()):
            h = disp.dispatch(P)
            reg.add(Contract(
                f"{path}::Formatter.__call__[{P.__name__}]", dict(self=Const(fmt), oper=node(P, arg=LEX)), fn=h,
                ensures=["one_of(result, [oper.op + wrap(doc(oper.arg), a) for a in (False, True)])"],
                properties=["C16"], modular=False, name=f"{lang}.Formatter[{P.__name__}]"))
        h = disp.dispatch(L.Conditional)
        ens = ("one_of(result, [wrap(doc(oper.condition), a) + ' ? ' + wrap(doc(oper.true), b) + ' : ' + wrap(doc(oper.false), c)"
               " for a in (False, True) for b in (False, True) for c in (False, True)])") if lang == "C" else (
            "one_of(result, ['(' + wrap(doc(oper.true), b) + ' if ' + wrap(doc(oper.condition), a) + ' else ' + wrap(doc(oper.false), c) + ')'"
            " for a in (False, True) for b in (False, True) for c in (False, True)])")
        reg.add(Contract(
            f"{path}::Formatter.__call__[Conditional]", dict(self=Const(fmt), oper=node(L.Conditional, condition=LEX, true=LEX, false=LEX)),
            fn=h, call=["self", "oper"], ensures=[ens], properties=["C16"], modular=False, name=f"{lang}.Formatter[Conditional]",
            max_paths=40000))


def spec_doc(x):
    """Text of a child as the formatter prints it (natively: the real C formatter)."""
    return Formatter("float64")(x)


def ast_eq():
    import ast

    return ast.Eq()
