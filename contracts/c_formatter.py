"""Contracts on ffcx/codegeneration/C/formatter.py (C07, C16, C19)."""
import types

import numpy as np
import z3

import ffcx.codegeneration.lnodes as L
from ffcx.codegeneration.C.formatter import Formatter
from pyvc.contract import Bool, Const, Contract, Custom, Enum, Int, OneOf, Rec
from pyvc.values import SV

F = "ffcx/codegeneration/C/formatter.py::"


def handler(cls):
    return Formatter.__dict__["__call__"].dispatcher.dispatch(cls)


class Values:
    """Stand-in for the numpy array of initial values (only .size/.shape are read by the handler itself)."""


def _real_arraydecl(native):
    a = native["arr"]
    vals = None if a.values is None else np.zeros(a.sizes)
    native = dict(native)
    native["arr"] = L.ArrayDecl(a.symbol, sizes=a.sizes, values=vals, const=bool(a.const))
    return native


def register(reg):
    fmt = Formatter("float64")

    # _build_initializer_lists is used modularly: its text never contains a storage-class keyword
    def build_init(interp, fn, args, kwargs):
        s = SV(z3.String("initializer"), "str")
        interp.ctx.assume(z3.Not(z3.Contains(s.z, z3.StringVal("static"))))
        interp.ctx.ghost.setdefault("externals", set()).add("_build_initializer_lists: text contains no 'static'")
        return s

    reg.effects[Formatter._build_initializer_lists] = build_init
    VALS = OneOf(Const(None), Rec(Values, size=Int(1), shape=Const((3,))))
    ARR = Rec(L.ArrayDecl, symbol=Enum(L.Symbol("FE0", L.DataType.REAL), L.Symbol("temp_0", L.DataType.SCALAR)),
              sizes=Enum((3,), (40,), (2, 20)), values=VALS, const=Bool(), dtype=Const(L.DataType.REAL))
    reg.add(Contract(
        F + "Formatter.__call__[ArrayDecl]", dict(self=Const(fmt), arr=ARR), fn=handler(L.ArrayDecl),
        requires=["implies(arr.values is None, not arr.const)",
                  "implies(arr.values is not None, arr.values.size == prod(arr.sizes))"],
        fix_native=_real_arraydecl,
        ensures=[
            # static storage only together with const, and only for const tables
            "('static' in result) == (arr.const and arr.values is not None)",
            "implies('static' in result, 'static const ' in result)",
            "implies(arr.values is None, ' = ' not in result)",
        ],
        properties=["C07"], modular=False, name="C.Formatter[ArrayDecl]",
        mutants=[('cstr = "static const " if arr.const else ""', 'cstr = "static const " if arr.const else "static "')]))
