"""Builds the registry: all contracts, shapes, spec functions."""
import sys

import os

_ROOT = os.path.dirname(os.path.dirname(os.path.abspath(__file__)))
sys.path.insert(0, _ROOT) if _ROOT not in sys.path else None
from contracts import lnodes_shapes, spec
from pyvc.contract import Registry


_CACHE = {}


def build(tier="quick"):
    if tier in _CACHE:
        return _CACHE[tier]
    reg = _build(tier)
    _CACHE[tier] = reg
    return reg


def _build(tier="quick"):
    reg = Registry(spec_globals=vars(spec))
    reg.shapes.update(lnodes_shapes.SHAPES)
    reg.opaque_specs[spec.ev] = "real"
    reg.opaque_specs[spec.evb] = "bool"
    reg.common_fields["dtype"] = lnodes_shapes._dtype
    reg.concretize_pref = lnodes_shapes.concretize_pref
    from contracts import c_lnodes

    c_lnodes.register(reg)
    c_lnodes.register_dtypes(reg)
    c_lnodes.register_index(reg)
    from contracts import c_symbols

    c_symbols.register(reg)
    from contracts import c_common

    c_common.register(reg, tier)
    c_common.register_unbounded(reg)
    c_common.register_tensor_sizes(reg)
    from contracts import c_options

    c_options.register(reg)
    from contracts import c_elementtables

    c_elementtables.register(reg)
    c_elementtables.register_quadrature(reg)
    c_elementtables.register_mte(reg)
    c_elementtables.register_offsets(reg)
    from contracts import c_analysis

    c_analysis.register(reg)
    c_analysis.register_representation(reg)
    c_analysis.register_form_ir(reg)
    from contracts import c_definitions

    c_definitions.register(reg)
    c_definitions.register_lincomb(reg)
    c_definitions.register_table_access(reg)
    from contracts import c_generators

    c_generators.register(reg)
    c_generators.register_expression(reg)
    c_generators.register_scopes(reg)
    from contracts import c_formatter

    c_formatter.register(reg)
    from contracts import c_factorization

    c_factorization.register(reg)
    return reg
