"""Builds the registry: all contracts, shapes, spec functions."""
import sys

sys.path.insert(0, "/verif") if "/verif" not in sys.path else None
from contracts import lnodes_shapes, spec
from pyvc.contract import Registry


def build(tier="quick"):
    reg = Registry(spec_globals=vars(spec))
    reg.shapes.update(lnodes_shapes.SHAPES)
    reg.opaque_specs[spec.ev] = "real"
    reg.opaque_specs[spec.evb] = "bool"
    reg.common_fields["dtype"] = lnodes_shapes._dtype
    reg.concretize_pref = lnodes_shapes.concretize_pref
    from contracts import c_lnodes

    c_lnodes.register(reg)
    from contracts import c_symbols

    c_symbols.register(reg)
    from contracts import c_common

    c_common.register(reg, tier)
    from contracts import c_options

    c_options.register(reg)
    return reg
