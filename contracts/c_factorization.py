"""Contracts on ffcx/ir/analysis/factorization.py handlers (C01, C09): coefficient-wise identities.

Operands are REAL UFL expressions (so UFL's own operator simplifications are part of what is checked);
the values of their terminals are symbolic complex numbers (reals for arguments and geometry).
Structural bound: the operand shapes enumerated below."""
import itertools

import basix.ufl
import ufl

import ffcx.ir.analysis.factorization as FZ
from ffcx.ir.analysis.graph import ExpressionGraph
from pyvc.contract import Contract, Custom, Native

F_ = "ffcx/ir/analysis/factorization.py::"
CALL = ["case['v']", "case['fac']", "case['sf']", "case['F']"]
_cache = {}


def atoms():
    if "a" not in _cache:
        mesh = ufl.Mesh(basix.ufl.element("Lagrange", "triangle", 1, shape=(2,)))
        V = ufl.FunctionSpace(mesh, basix.ufl.element("Lagrange", "triangle", 1))
        x = ufl.SpatialCoordinate(mesh)
        _cache["a"] = dict(
            f=ufl.Coefficient(V), g=ufl.Coefficient(V), c=ufl.Constant(mesh), lit=ufl.as_ufl(2.0 + 3.0j),
            r=ufl.as_ufl(0.5), x0=x[0], one=ufl.as_ufl(1.0), u=ufl.TrialFunction(V), v=ufl.TestFunction(V))
    return _cache["a"]


FACTOR_KINDS = ["f", "c", "lit", "x0", "one", "fg", "cx"]


def factor(kind):
    a = atoms()
    if kind == "fg":
        return a["f"] * a["g"]
    if kind == "cx":
        return a["c"] * a["x0"]
    return a[kind]


FRAME = "case['fac'] == case['fac_before']"  # frame: the operands' factor maps are not modified


def _snap(case):
    case["fac_before"] = [dict(d) for d in case["fac"]]
    return case


def graph_with(exprs):
    F = ExpressionGraph()
    F.e2i = {}
    idx = [FZ.graph_insert(F, e) for e in exprs]
    return F, idx


def case_unary(kinds, keys):
    """fac = [ {key_j: factor kinds_j} ]"""
    def make():
        F, idx = graph_with([factor(k) for k in kinds])
        return _snap(dict(v=None, fac=[dict(zip(keys, idx))], sf=[None], F=F))

    return make


def register(reg):
    from contracts import spec_ufl

    reg.spec_globals.update({k: v for k, v in vars(spec_ufl).items() if not k.startswith("_")})
    a = atoms()
    n = 0
    # ---- conj: every factor is conjugated, keys unchanged
    for kinds in [(k,) for k in FACTOR_KINDS] + [("f", "c"), ("lit", "x0"), ("cx", "fg")]:
        keys = [(0,), (1,)][: len(kinds)]
        mk = case_unary(kinds, keys)
        reg.add(Contract(
            F_ + "handle_conj", dict(case=Native(mk)), call=CALL,
            ensures=["sorted(result.keys()) == sorted(case['fac'][0].keys())",
                     "all([ceq(fval(case['F'], result[k], env), cconj(fval(case['F'], case['fac'][0][k], env)))"
                     " for k in case['fac'][0]])", FRAME],
            properties=["C09", "C01"], modular=False, name=f"handle_conj[{'+'.join(kinds)}]",
            bounded="operand shapes: <=2 argument keys, factor kinds " + ",".join(FACTOR_KINDS),
            mutants=[("graph_insert(F, Conj(f0))", "graph_insert(F, f0)")] if kinds == ("c",) else []))
    # ---- sum: coefficient-wise sum over the union of keys
    for k0, k1, keys0, keys1 in [(("f",), ("c",), [(0,)], [(0,)]), (("f",), ("lit",), [(0,)], [(1,)]),
                                 (("f", "x0"), ("c",), [(0,), (1,)], [(1,)]), (("one",), ("fg",), [(0, 1)], [(0, 1)]),
                                 (("cx",), ("lit", "f"), [(0, 1)], [(0, 1), (0, 2)])]:
        def mk(k0=k0, k1=k1, keys0=keys0, keys1=keys1):
            F, idx = graph_with([factor(k) for k in k0 + k1])
            return _snap(dict(v=None, fac=[dict(zip(keys0, idx[: len(k0)])), dict(zip(keys1, idx[len(k0):]))], sf=[None, None], F=F))

        reg.add(Contract(
            F_ + "handle_sum", dict(case=Native(mk)), call=CALL,
            ensures=["sorted(result.keys()) == sorted(set(case['fac'][0]) | set(case['fac'][1]))",
                     "all([ceq(fval(case['F'], result[k], env), cadd(fval_or_zero(case['F'], case['fac'][0], k, env),"
                     " fval_or_zero(case['F'], case['fac'][1], k, env))) for k in result])", FRAME],
            properties=["C01", "C09"], modular=False, name=f"handle_sum[{'+'.join(k0)}|{'+'.join(k1)}|{keys0}{keys1}]",
            bounded="operand shapes enumerated in contracts/c_factorization.py",
            mutants=[("fisum = graph_insert(F, f0 + f1)", "fisum = graph_insert(F, f0 * f1)")] if k0 == ("f",) and k1 == ("c",) else []))
    # ---- product: non-arg * arg, arg * non-arg, arg * arg
    for k0, k1, keys0, keys1, s0, s1 in [
            ((), ("f",), [], [(0,)], "c", None), ((), ("lit", "x0"), [], [(0,), (1,)], "fg", None),
            (("c",), (), [(0,)], [], None, "f"), (("f", "lit"), (), [(0,), (1,)], [], None, "cx"),
            (("f",), ("c",), [(0,)], [(1,)], None, None), (("lit", "x0"), ("fg",), [(1,), (0,)], [(2,)], None, None)]:
        def mk(k0=k0, k1=k1, keys0=keys0, keys1=keys1, s0=s0, s1=s1):
            F, idx = graph_with([factor(k) for k in k0 + k1])
            return _snap(dict(v=None, fac=[dict(zip(keys0, idx[: len(k0)])), dict(zip(keys1, idx[len(k0):]))],
                              sf=[factor(s0) if s0 else None, factor(s1) if s1 else None], F=F))

        if s0:
            ens = ["sorted(result.keys()) == sorted(case['fac'][1].keys())",
                   "all([ceq(fval(case['F'], result[k], env), cmul(uval(case['sf'][0], env), fval(case['F'], case['fac'][1][k], env))) for k in result])"]
        elif s1:
            ens = ["sorted(result.keys()) == sorted(case['fac'][0].keys())",
                   "all([ceq(fval(case['F'], result[k], env), cmul(uval(case['sf'][1], env), fval(case['F'], case['fac'][0][k], env))) for k in result])"]
        else:
            ens = ["sorted(result.keys()) == sorted([tuple(sorted(a + b)) for a in case['fac'][0] for b in case['fac'][1]])",
                   "all([ceq(fval(case['F'], result[tuple(sorted(a + b))], env), cmul(fval(case['F'], case['fac'][0][a], env),"
                   " fval(case['F'], case['fac'][1][b], env))) for a in case['fac'][0] for b in case['fac'][1]])"]
        reg.add(Contract(
            F_ + "handle_product", dict(case=Native(mk)), call=CALL, ensures=ens + [FRAME],
            properties=["C01", "C09"], modular=False, name=f"handle_product[{'+'.join(k0)}|{'+'.join(k1)}|{s0}|{s1}]",
            bounded="operand shapes enumerated in contracts/c_factorization.py",
            mutants=[("factors[k1] = graph_insert(F, f0 * f1)", "factors[k1] = graph_insert(F, f0 + f1)")] if s0 == "c" else []))
    # ---- division: arg / non-arg
    for k0, keys0, s1 in [(("f",), [(0,)], "c"), (("lit", "x0"), [(0,), (1,)], "fg"), (("one",), [(0, 1)], "cx")]:
        def mk(k0=k0, keys0=keys0, s1=s1):
            F, idx = graph_with([factor(k) for k in k0])
            return _snap(dict(v=None, fac=[dict(zip(keys0, idx)), {}], sf=[None, factor(s1)], F=F))

        reg.add(Contract(
            F_ + "handle_division", dict(case=Native(mk)), call=CALL,
            requires=["uval(case['sf'][1], env)[0] != 0 or uval(case['sf'][1], env)[1] != 0"],
            ensures=["sorted(result.keys()) == sorted(case['fac'][0].keys())",
                     "all([ceq(fval(case['F'], result[k], env), cdiv(fval(case['F'], case['fac'][0][k], env), uval(case['sf'][1], env), env)) for k in result])", FRAME],
            properties=["C01", "C09"], modular=False, name=f"handle_division[{'+'.join(k0)}|{s1}]",
            bounded="operand shapes enumerated in contracts/c_factorization.py",
            mutants=[("graph_insert(F, f0 / f1)", "graph_insert(F, f1 / f0)")] if s1 == "c" else []))


def _unpack(h):
    """The handlers take (v, fac, sf, F); contracts pass one 'case' record."""
    return h
