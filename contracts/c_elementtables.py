"""Contracts on ffcx/ir/elementtables.py (C03, C10, C01)."""
from pyvc.contract import Contract, Enum, ListOf, Real

F = "ffcx/ir/elementtables.py::"


def register(reg):
    P2 = ListOf(ListOf(Real(), 2), 2)
    P1 = ListOf(ListOf(Real(), 1), 2)
    reg.add(Contract(
        F + "permute_quadrature_interval", dict(points=P1, reflections=Enum(0, 1)),
        ensures=["len(result) == len(points)",
                 "all([same_point(result[k], iterate(refl1, reflections, points[k])) for k in range(len(points))])"],
        properties=["C03"], modular=False, bounded="number of points <= 2 (the function acts point-wise)",
        mutants=[("[1 - p[0]]", "[p[0]]")]))
    reg.add(Contract(
        F + "permute_quadrature_triangle", dict(points=P2, reflections=Enum(0, 1), rotations=Enum(0, 1, 2)),
        ensures=["len(result) == len(points)",
                 # A-PERM: rotations first, then the reflection
                 "all([same_point(result[k], iterate(refl2, reflections, iterate(tri_rot, rotations, points[k])))"
                 " for k in range(len(points))])"],
        properties=["C03"], modular=False, bounded="number of points <= 2 (the function acts point-wise)",
        mutants=[("[p[1], 1 - p[0] - p[1]]", "[1 - p[0] - p[1], p[0]]"),
                 ("    for _ in range(rotations):\n        for n, p in enumerate(output):\n            output[n] = [p[1], 1 - p[0] - p[1]]\n    for _ in range(reflections):\n        for n, p in enumerate(output):\n            output[n] = [p[1], p[0]]",
                  "    for _ in range(reflections):\n        for n, p in enumerate(output):\n            output[n] = [p[1], p[0]]\n    for _ in range(rotations):\n        for n, p in enumerate(output):\n            output[n] = [p[1], 1 - p[0] - p[1]]")]))
    reg.add(Contract(
        F + "permute_quadrature_quadrilateral", dict(points=P2, reflections=Enum(0, 1), rotations=Enum(0, 1, 2, 3)),
        ensures=["len(result) == len(points)",
                 "all([same_point(result[k], iterate(refl2, reflections, iterate(quad_rot, rotations, points[k])))"
                 " for k in range(len(points))])"],
        properties=["C03"], modular=False, bounded="number of points <= 2 (the function acts point-wise)",
        mutants=[("[p[1], 1 - p[0]]", "[1 - p[1], p[0]]")]))


def register_quadrature(reg):
    """representationutils.create_quadrature_points_and_weights, tensor-product branch (C10)."""
    import itertools
    import types

    import numpy as np
    import z3

    import ffcx.ir.representationutils as RU
    from pyvc import models
    from pyvc.contract import Const, Custom, Enum
    from pyvc.values import SV

    def create_quadrature(interp, fn, args, kwargs):
        """external: a 1D rule with n points (n chosen per path), symbolic abscissae and weights"""
        k = interp.ctx.ghost.setdefault("nrules", 0)
        interp.ctx.ghost["nrules"] = k + 1
        n = interp.ctx.ghost["n1d"]
        pts = [[SV(z3.Real(f"x{k}_{i}"), "real")] for i in range(n)]
        wts = [SV(z3.Real(f"w{k}_{i}"), "real") for i in range(n)]
        interp.ctx.ghost.setdefault("rules1d", []).append((pts, wts))
        return (pts, wts)

    reg.effects[RU.create_quadrature] = create_quadrature
    models._SHALLOW_FUNCS.add(itertools.product)

    def n1d(interp, name):
        n = 1 + interp.ctx.decide(3, "points per direction")
        interp.ctx.ghost["n1d"] = n
        return n

    cell = lambda nm: types.SimpleNamespace(cellname=nm)  # noqa: E731
    reg.add(Contract(
        "ffcx/ir/representationutils.py::create_quadrature_points_and_weights",
        dict(integral_type=Const("cell"), cell=Enum(cell("quadrilateral"), cell("hexahedron")), degree=Const(2), rule=Const("default"),
             elements=Const([]), use_tensor_product=Const(True)),
        ghosts=dict(n=Custom(n1d)), ghost_names=["rules1d"],
        ensures=[
            "len(result[2][cell.cellname]) == (2 if cell.cellname == 'quadrilateral' else 3)",
            # weights[flat(q)] = prod_k w_k[q_k], points[flat(q)] = (x_0[q_0], ..., x_{d-1}[q_{d-1}]) in row-major order
            "tensor_rule_ok(result[0][cell.cellname], result[1][cell.cellname], result[2][cell.cellname])",
        ],
        properties=["C10"], modular=False, bounded="<= 3 points per direction",
        mutants=[("[np.prod(p) for p in itertools.product(*[f[1] for f in tensor_factors[cell_name]])]",
                  "[np.prod(p) for p in itertools.product(*[f[1] for f in reversed(tensor_factors[cell_name])])]")]))


def register_mte(reg):
    """get_modified_terminal_element: J[i, d] with further reference derivatives ld maps to the coordinate element's
    x_i with the derivative MULTISET ld + {d} (C01)."""
    import types

    import basix.ufl
    import ufl
    import z3

    from pyvc.contract import Const, Custom, Enum
    from pyvc.values import SV

    cache = {}

    def mk_mt(interp, name):
        if "mesh" not in cache:
            cache["mesh"] = {c: ufl.Mesh(basix.ufl.element("Lagrange", c, 2, shape=(g,))) for c, g in (("quadrilateral", 2), ("hexahedron", 3))}
        cellname = ["quadrilateral", "hexahedron"][interp.ctx.decide(2, "cell")]
        mesh = cache["mesh"][cellname]
        tdim = mesh.topological_dimension
        nld = interp.ctx.decide(3, "number of further reference derivatives")
        ld = tuple(SV(z3.Int(f"ld{k}"), "int") for k in range(nld))
        i, d = SV(z3.Int("row"), "int"), SV(z3.Int("col"), "int")
        for v in ld + (d,):
            interp.ctx.assume(z3.And(v.z >= 0, v.z < tdim))
        interp.ctx.assume(z3.And(i.z >= 0, i.z < tdim))
        interp.ctx.ghost["tdim"] = tdim
        return types.SimpleNamespace(terminal=ufl.Jacobian(mesh), global_derivatives=(), local_derivatives=ld, component=(i, d),
                                     flat_component=SV(z3.Int("flat"), "int"), averaged=None, reference_value=False, restriction=None)

    reg.add(Contract(
        "ffcx/ir/elementtables.py::get_modified_terminal_element", dict(mt=Custom(mk_mt)), ghost_names=["tdim"],
        ensures=[
            "result.fc == mt.component[0]",
            # counts per reference direction: those of ld plus one for the Jacobian column
            "all([result.local_derivatives[k] == sum([1 if x == k else 0 for x in mt.local_derivatives]) + (1 if mt.component[1] == k else 0)"
            " for k in range(ghost('tdim'))])",
            "len(result.local_derivatives) == ghost('tdim')",
        ],
        properties=["C01"], modular=False, bounded="<= 2 further reference derivatives of J; quadrilateral and hexahedron",
        mutants=[("ld = tuple(sorted((d,) + ld))", "ld = tuple(sorted(ld))")]))


def register_offsets(reg):
    """build_optimized_tables, the offset fragment (C02, C05): the dof offset of a table reference is the component's
    offset inside the element, plus the element dimension iff the terminal is a '-' restricted FORM ARGUMENT (geometry
    terminals get their '-' offset in definitions/access, not here); block size is the component stride."""
    import types

    import basix.ufl
    import ufl
    import z3

    from pyvc.contract import Const, Custom, fragment
    from pyvc.values import SV

    cache = {}

    def terminals():
        if not cache:
            mesh = ufl.Mesh(basix.ufl.element("Lagrange", "triangle", 1, shape=(2,)))
            V = ufl.FunctionSpace(mesh, basix.ufl.element("Lagrange", "triangle", 1))
            cache["t"] = [ufl.Coefficient(V), ufl.TestFunction(V), ufl.TrialFunction(V), ufl.SpatialCoordinate(mesh), ufl.Jacobian(mesh),
                          ufl.classes.ReferenceValue(ufl.Coefficient(V)).ufl_operands[0]]
        return cache["t"]

    def mk_mt(interp, name):
        ts = terminals()
        t = ts[interp.ctx.decide(len(ts), "terminal class")]
        r = [None, "+", "-"][interp.ctx.decide(3, "restriction")]
        return types.SimpleNamespace(terminal=t, restriction=r)

    def mk_element(interp, name):
        d = SV(z3.Int("element_dim"), "int")
        interp.ctx.assume(d.z >= 1)
        return types.SimpleNamespace(dim=d)

    def mk_t(interp, name):
        o, st = SV(z3.Int("component_offset"), "int"), SV(z3.Int("component_stride"), "int")
        interp.ctx.assume(z3.And(o.z >= 0, st.z >= 1))
        return dict(offset=o, stride=st, array=None)

    frag = fragment("ffcx/ir/elementtables.py::build_optimized_tables", "if mt.restriction == '-' and isinstance(mt.terminal, ufl.classes.FormArgument):",
                    last="block_size = t[", params=["mt", "element", "t", "cell_offset"], returns="(offset, block_size)", name="build_optimized_tables#offset")
    reg.add(Contract(
        "ffcx/ir/elementtables.py::build_optimized_tables", dict(mt=Custom(mk_mt), element=Custom(mk_element), t=Custom(mk_t), cell_offset=Const(0)), fn=frag,
        ensures=["result[0] == t['offset'] + (element.dim if (mt.restriction == '-' and is_form_argument(mt.terminal)) else 0)",
                 "result[1] == t['stride']"],
        properties=["C02", "C05", "C08"], modular=False, name="build_optimized_tables#offset",
        mutants=[("cell_offset = element.dim", 'cell_offset = t["stride"] * element.dim'),
                 ('mt.restriction == "-" and isinstance(mt.terminal, ufl.classes.FormArgument)', 'mt.restriction == "-"'),
                 ('offset = cell_offset + t["offset"]', "offset = cell_offset")]))
