"""Spec functions over real UFL scalar expressions: complex value (pair of reals) in an environment."""
import ufl
import ufl.classes as U


def cadd(a, b):
    return (a[0] + b[0], a[1] + b[1])


def cmul(a, b):
    return (a[0] * b[0] - a[1] * b[1], a[0] * b[1] + a[1] * b[0])


def cconj(a):
    return (a[0], -a[1])


def cdiv(a, b, env):
    d = b[0] * b[0] + b[1] * b[1]
    return (env.div(a[0] * b[0] + a[1] * b[1], d), env.div(a[1] * b[0] - a[0] * b[1], d))


def ceq(a, b):
    return all([a[0] == b[0], a[1] == b[1]])


def is_real_terminal(e):
    return isinstance(e, (U.Argument, U.GeometricQuantity))


def uval(e, env):
    """Complex value (re, im) of a scalar UFL expression."""
    if isinstance(e, U.Zero):
        return (0, 0)
    if isinstance(e, U.ComplexValue):
        return (e.value().real, e.value().imag)
    if isinstance(e, U.ScalarValue):
        return (e.value(), 0)
    if isinstance(e, U.Sum):
        a, b = e.ufl_operands
        return cadd(uval(a, env), uval(b, env))
    if isinstance(e, U.Product):
        a, b = e.ufl_operands
        return cmul(uval(a, env), uval(b, env))
    if isinstance(e, U.Division):
        a, b = e.ufl_operands
        return cdiv(uval(a, env), uval(b, env), env)
    if isinstance(e, U.Conj):
        return cconj(uval(e.ufl_operands[0], env))
    if isinstance(e, U.Real):
        return (uval(e.ufl_operands[0], env)[0], 0)
    if isinstance(e, U.Imag):
        return (uval(e.ufl_operands[0], env)[1], 0)
    if isinstance(e, U.Conditional):
        c, t, f = e.ufl_operands
        if ucond(c, env):
            return uval(t, env)
        return uval(f, env)
    if isinstance(e, U.Indexed) or e._ufl_is_terminal_:
        base = e.ufl_operands[0] if isinstance(e, U.Indexed) else e
        key = repr(e)
        if is_real_terminal(base):
            return (env.sym("re:" + key), 0)
        return (env.sym("re:" + key), env.sym("im:" + key))
    raise TypeError(f"uval: unsupported UFL node {type(e).__name__}")


def ucond(c, env):
    a, b = c.ufl_operands[0], c.ufl_operands[1] if len(c.ufl_operands) > 1 else None
    if isinstance(c, U.LT):
        return uval(a, env)[0] < uval(b, env)[0]
    if isinstance(c, U.GT):
        return uval(a, env)[0] > uval(b, env)[0]
    if isinstance(c, U.LE):
        return uval(a, env)[0] <= uval(b, env)[0]
    if isinstance(c, U.GE):
        return uval(a, env)[0] >= uval(b, env)[0]
    raise TypeError(f"ucond: unsupported condition {type(c).__name__}")


def fexpr(F, i):
    return F.nodes[i]["expression"]


def fval(F, i, env):
    return uval(F.nodes[i]["expression"], env)


def fval_or_zero(F, d, k, env):
    if k in d:
        return uval(F.nodes[d[k]]["expression"], env)
    return (0, 0)
