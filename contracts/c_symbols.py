"""Contracts on ffcx/codegeneration/symbols.py (C02, C03, C05, C08)."""
import z3

import ffcx.codegeneration.lnodes as L
from contracts import lnodes_shapes as S
from ffcx.codegeneration.symbols import FFCXBackendSymbols
from pyvc.contract import Bool, Const, Contract, Custom, Enum, Int, OneOf, Rec, Str
from pyvc.values import SV

F = "ffcx/codegeneration/symbols.py::FFCXBackendSymbols."
LEXPR = Custom(S.lexpr)
RESTR = Enum(None, "+", "-")


class Key:
    """Stand-in for a ufl Coefficient / Constant used as dictionary key."""

    def __init__(self, name):
        self.name = name

    def __repr__(self):
        return f"<{self.name}>"


COEF = Key("coefficient")
CONST = Key("constant")


def symbols_self(interp, name):
    off = SV(z3.Int("coefficient_offset"), "int")
    coff = SV(z3.Int("constant_offset"), "int")
    obj = FFCXBackendSymbols({COEF: 0}, {COEF: off}, {CONST: coff})
    interp.ctx.ghost["offsets"] = (off, coff)
    return obj


def conc_self(cz, v):
    return v


SELF = Custom(symbols_self)


def register(reg):
    reg.add(Contract(
        F + "entity", dict(self=SELF, entity_type=Enum("cell", "facet", "vertex", "ridge"), restriction=RESTR),
        ensures=[
            # cell: literal 0; facet: entity_local_index[1 iff '-']; vertex, ridge: entity_local_index[0]
            "implies(entity_type == 'cell', isinstance(result, L.LiteralInt) and result.value == 0)",
            "implies(entity_type != 'cell', is_access(result, 'entity_local_index', 1))",
            "implies(entity_type != 'cell', ev(idx(result, 0), env) == (1 if (entity_type == 'facet' and restriction == '-') else 0))",
        ],
        result=LEXPR, properties=["C02", "C08"], modular=False,
        mutants=[('if restriction == "-":\n                return self.entity_local_index[1]',
                  'if restriction == "+":\n                return self.entity_local_index[1]'),
                 ("return L.LiteralInt(0)", "return self.entity_local_index[0]")]))
    reg.add(Contract(
        F + "domain_dof_access",
        dict(self=SELF, dof=OneOf(LEXPR, Int()), component=Int(), gdim=Int(), num_scalar_dofs=Int(), restriction=RESTR),
        requires=["num_scalar_dofs >= 1", "0 <= component", "component < 3", "gdim >= 1", "gdim <= 3"],
        ensures=[
            "is_access(result, 'coordinate_dofs', 1)",
            "ev(idx(result, 0), env) == 3 * ev(dof, env) + component + (3 * num_scalar_dofs if restriction == '-' else 0)",
            # UFCx layout coordinate_dofs[restriction][node][3]: stays in the block of its restriction
            "implies(0 <= ev(dof, env) and ev(dof, env) <= num_scalar_dofs - 1,"
            " 3 * num_scalar_dofs * (1 if restriction == '-' else 0) <= ev(idx(result, 0), env)"
            " and ev(idx(result, 0), env) <= 3 * num_scalar_dofs * ((1 if restriction == '-' else 0) + 1) - 1)",
        ],
        result=LEXPR, properties=["C02", "C08"], modular=False,
        mutants=[('if restriction == "-":', 'if restriction == "+":'),
                 ("offset = num_scalar_dofs * 3", "offset = num_scalar_dofs * gdim"),
                 ("3 * dof + component + offset", "3 * component + dof + offset")]))
    reg.add(Contract(
        F + "coefficient_dof_access", dict(self=SELF, coefficient=Const(COEF), dof_index=OneOf(LEXPR, Int())),
        ensures=["is_access(result, 'w', 1)",
                 "ev(idx(result, 0), env) == self.coefficient_offsets[coefficient] + ev(dof_index, env)"],
        result=LEXPR, properties=["C05", "C08"], modular=False,
        mutants=[("w[offset + dof_index]", "w[dof_index]")]))
    reg.add(Contract(
        F + "coefficient_dof_access_blocked",
        dict(self=SELF, coefficient=Const(COEF), index=OneOf(LEXPR, Int()), block_size=Int(1), dof_offset=Int(0)),
        ensures=["is_access(result[1], 'w', 1)",
                 "ev(idx(result[1], 0), env) == self.coefficient_offsets[coefficient] + ev(index, env) * block_size + dof_offset",
                 "isinstance(result[0], L.ArrayAccess) and len(result[0].indices) == 1 and ev(idx(result[0], 0), env) == ev(index, env)",
                 "result[0].array.name != 'w' and result[0].array.name != 'A'"],
        properties=["C05", "C08"], modular=False, name="FFCXBackendSymbols.coefficient_dof_access_blocked",
        mutants=[("coeff_offset + index * block_size + dof_offset", "coeff_offset + index + block_size * dof_offset")]))
    reg.add(Contract(
        F + "constant_index_access", dict(self=SELF, constant=Const(CONST), index=OneOf(LEXPR, Int())),
        ensures=["is_access(result, 'c', 1)",
                 "ev(idx(result, 0), env) == self.original_constant_offsets[constant] + ev(index, env)"],
        result=LEXPR, properties=["C05", "C08"], modular=False,
        mutants=[("c[offset + index]", "c[offset * index]")]))
    TD = Rec(type("TableData", (), {}), is_uniform=Bool(), is_piecewise=Bool(), is_permuted=Bool(), name=Const("FE0_C0"))
    reg.add(Contract(
        F + "element_table", dict(self=SELF, tabledata=TD, entity_type=Enum("cell", "facet", "vertex", "ridge"), restriction=RESTR),
        ensures=[
            "isinstance(result, L.ArrayAccess) and result.array.name == tabledata.name and len(result.indices) == 3",
            # permutation axis: 0 unless permuted; quadrature_permutation[1] iff '-'
            "implies(not tabledata.is_permuted, ev(idx(result, 0), env) == 0 and isinstance(idx(result, 0), L.LiteralInt))",
            "implies(tabledata.is_permuted, is_access(idx(result, 0), 'quadrature_permutation', 1)"
            " and ev(idx(idx(result, 0), 0), env) == (1 if restriction == '-' else 0))",
            # entity axis
            "implies(tabledata.is_uniform or entity_type == 'cell', ev(idx(result, 1), env) == 0 and isinstance(idx(result, 1), L.LiteralInt))",
            "implies(not tabledata.is_uniform and entity_type != 'cell', is_access(idx(result, 1), 'entity_local_index', 1)"
            " and ev(idx(idx(result, 1), 0), env) == (1 if (entity_type == 'facet' and restriction == '-') else 0))",
            # point axis
            "implies(tabledata.is_piecewise, isinstance(idx(result, 2), L.LiteralInt) and idx(result, 2).value == 0)",
            "implies(not tabledata.is_piecewise, isinstance(idx(result, 2), L.Symbol) and idx(result, 2).name == 'iq')",
        ],
        properties=["C02", "C03", "C04", "C08"], modular=False,
        mutants=[('qp = self.quadrature_permutation[0]\n            if restriction == "-":\n                qp = self.quadrature_permutation[1]',
                  'qp = self.quadrature_permutation[0]'),
                 ("if tabledata.is_piecewise:\n            iq = 0", "if tabledata.is_uniform:\n            iq = 0")]))
