"""Field shapes of the real LNodes classes (for lazily initialised symbolic operands).

Checked against the real classes on every run (check_shapes): a constructor that starts storing
another field, or a renamed field, makes the run an engine error (exit 3), never a verdict."""

import inspect

import z3

import ffcx.codegeneration.lnodes as L
from pyvc import models
from pyvc.values import SV, SLazy, SObj

DT = list(L.DataType)

# value expressions: every leaf LExpr class except the assignment operators
def lexpr_classes():
    out = []
    for name, c in vars(L).items():
        if isinstance(c, type) and issubclass(c, L.LExpr) and c.__module__ == L.__name__:
            if any(isinstance(d, type) and d is not c and issubclass(d, c) for d in vars(L).values()):
                continue
            if issubclass(c, L.AssignOp):
                continue
            out.append(c)
    return out


VALUE_CLASSES = None


def value_classes():
    global VALUE_CLASSES
    if VALUE_CLASSES is None:
        VALUE_CLASSES = lexpr_classes()
    return VALUE_CLASSES


def lexpr(interp, name):
    return SLazy(L.LExpr, value_classes(), name)


def _real(interp, name):
    return SV(z3.Real(name), "real")


def _int(interp, name):
    return SV(z3.Int(name), "int")


def _str(interp, name):
    return SV(z3.String(name), "str")


def _dtype(interp, name):
    return models.mk_ref(interp.ctx, DT, name)


def _const(v):
    return lambda interp, name: v


def _lexpr_list(lo, hi, as_tuple=False):
    def f(interp, name):
        n = lo + interp.ctx.decide(hi - lo + 1, f"len {name}")
        interp.ctx.ghost.setdefault("structural_bounds", set()).add(f"len({name})<={hi}")
        xs = [lexpr(interp, f"{name}[{i}]") for i in range(n)]
        return tuple(xs) if as_tuple else xs

    return f


def _symbol(interp, name):
    so = SObj(L.Symbol)
    so.fields["name"] = _str(interp, name + ".name")
    so.fields["dtype"] = _dtype(interp, name + ".dtype")
    return so


SHAPES = {
    L.LiteralFloat: dict(value=_real, dtype=_const(L.DataType.REAL)),
    L.LiteralInt: dict(value=_int, dtype=_const(L.DataType.INT)),
    L.Symbol: dict(name=_str, dtype=_dtype),
    L.MultiIndex: dict(dtype=_const(L.DataType.INT), global_index=lambda interp, name: SLazy(L.LExpr, [L.LiteralInt, L.Sum], name), sizes=_const(None), symbols=_const(None)),
    L.PrefixUnaryOp: dict(arg=lexpr),
    L.Neg: dict(arg=lexpr, dtype=_dtype),
    L.BinOp: dict(lhs=lexpr, rhs=lexpr),
    L.ArithmeticBinOp: dict(lhs=lexpr, rhs=lexpr, dtype=_dtype),
    L.NaryOp: dict(args=_lexpr_list(1, 3), dtype=_dtype),
    L.MathFunction: dict(function=_str, args=_lexpr_list(1, 2), dtype=_dtype),
    L.ArrayAccess: dict(array=_symbol, indices=_lexpr_list(1, 2, True), dtype=_dtype),
    L.Conditional: dict(condition=lexpr, true=lexpr, false=lexpr, dtype=_dtype),
}


def check_shapes():
    """Every self.<field> assigned in the real __init__ of a modelled class is declared."""
    import ast
    import textwrap

    problems = []
    for cls, sh in SHAPES.items():
        init = cls.__dict__.get("__init__")
        if init is None:
            continue
        src = textwrap.dedent(inspect.getsource(init))
        assigned = {
            n.attr
            for n in ast.walk(ast.parse(src))
            if isinstance(n, ast.Attribute) and isinstance(n.ctx, ast.Store) and isinstance(n.value, ast.Name) and n.value.id == "self"
        }
        if assigned - set(sh):
            problems.append(f"{cls.__name__}: fields {sorted(assigned - set(sh))} not in the model")
    return problems


def concretize_pref(cz, lz):
    """Native stand-in for an unresolved lazy operand: a fresh Symbol whose value in the
    replay environment is the model value of the operand's ev-variable."""
    from contracts import spec

    if L.Symbol in lz.cands:
        name = f"u{lz.uid}"
        sym = L.Symbol(name, dtype=L.DataType.REAL)
        for fn, (var, _a) in lz.evvars.items():
            val = cz.scalar(SV(var, "real" if var.sort() == z3.RealSort() else "int"))
            if fn is spec.ev:
                cz.env_sym[name] = val
        return sym
    if lz.cands:
        lz.cands = lz.cands[:1]
        so = cz.interp._materialise(lz)
        return cz.conc(so)
    return NotImplemented
