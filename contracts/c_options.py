"""Contracts on ffcx/options.py, ffcx/formatting.py (C20)."""
import z3

import ffcx.options as O
from pyvc.contract import Contract, Custom, Enum
from pyvc.values import SV

DEFAULT_KEYS = list(O.FFCX_DEFAULT_OPTIONS)
EXTRA = "some_unknown_key"


def _val(interp, name, key):
    typ = O.FFCX_DEFAULT_OPTIONS[key][0] if key in O.FFCX_DEFAULT_OPTIONS else int
    if key == "verbosity":
        return SV(z3.Int(name), "int")
    if typ is float:
        return SV(z3.Real(name), "real")
    if typ is str:
        return SV(z3.String(name), "str")
    if typ is bool:
        return SV(z3.Bool(name), "bool")
    return SV(z3.Int(name), "int")


def source(which):
    """A config source: any subset of {focus key, unknown key} present, values symbolic."""

    def make(interp, name):
        focus = interp.ctx.ghost["focus"]
        d = {}
        for k in (focus, EXTRA):
            if interp.ctx.decide(2, f"{which} has {k}") == 1:
                d[k] = _val(interp, f"{which}_{k}", k)
        return d

    return make


def focus_key(interp, name):
    k = DEFAULT_KEYS[interp.ctx.decide(len(DEFAULT_KEYS), "focus key")]
    interp.ctx.ghost["focus"] = k
    return k


def priority(interp, name):
    if interp.ctx.decide(2, "priority is None") == 1:
        interp.ctx.ghost["prio"] = None
        return None
    d = source("priority")(interp, name)
    interp.ctx.ghost["prio"] = d
    return d


def register(reg):
    # _load_options is external (reads the two JSON files): any pair of dicts
    def load_options(interp, fn, args, kwargs):
        u = source("user")(interp, "user")
        p = source("pwd")(interp, "pwd")
        interp.ctx.ghost["user"], interp.ctx.ghost["pwd"] = u, p
        return (u, p)

    reg.effects[O._load_options] = load_options
    reg.effects[O.logger.setLevel] = lambda interp, fn, args, kwargs: None

    import contextlib
    import unittest.mock

    def native_patch(ghosts):
        @contextlib.contextmanager
        def cm():
            with unittest.mock.patch.object(O, "_load_options", lambda: (dict(ghosts["user"]), dict(ghosts["pwd"]))):
                lvl = O.logger.level
                try:
                    yield
                finally:
                    O.logger.setLevel(lvl)

        return cm()

    c = Contract(
        "ffcx/options.py::get_options",
        dict(priority_options=Custom(priority)),
        ghosts=dict(focus=Custom(focus_key)), ghost_names=["user", "pwd"], native_patch=native_patch,
        ensures=[
            # precedence: priority > $PWD json > user json > default, key by key
            "merged(result, focus) == expected_option(focus, priority_options, ghost('pwd'), ghost('user'))",
            "implies(present(EXTRA, priority_options, ghost('pwd'), ghost('user')),"
            " result[EXTRA] == expected_option(EXTRA, priority_options, ghost('pwd'), ghost('user')))",
            "all([k in result for k in DEFAULT_KEYS])",
        ],
        properties=["C20"], modular=False, bounded="keys per option source <= 2 (one default key, one unknown key; dict.update is key-wise)",
        mutants=[("options.update(user_options)\n    options.update(pwd_options)", "options.update(pwd_options)\n    options.update(user_options)"),
                 ("    if priority_options is not None:\n        options.update(priority_options)\n", "")],
    )
    reg.add(c)
