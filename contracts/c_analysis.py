"""Fragment contracts on ffcx/analysis.py and ffcx/ir/representation.py (C11, C05, C02, C04)."""
import types

import numpy as np
import ufl.algorithms
import z3

from pyvc import models
from pyvc.contract import Const, Contract, Custom, Enum, Int, ListOf, fragment
from pyvc.values import SV


class StubIntegral:
    """Stand-in for ufl.Integral: metadata(), integral_type(), reconstruct(metadata=)."""

    def __init__(self, md, itype="cell"):
        self.md = md
        self.itype = itype
        self.new_metadata = None

    def metadata(self):
        return self.md

    def integral_type(self):
        return self.itype

    def reconstruct(self, metadata=None):
        r = StubIntegral(dict(metadata), self.itype)
        r.reconstructed_from = self
        return r


class StubElement:
    has_custom_quadrature = False


class StubQuadratureElement:
    has_custom_quadrature = True

    def __init__(self, q):
        self.q = q

    def custom_quadrature(self):
        return self.q


def make_form_data(n):
    def make(interp, name):
        integrals = []
        given = []
        for i in range(n):
            md = {}
            est = SV(z3.Int(f"estimated_{i}"), "int")
            interp.ctx.assume(est.z >= 0)
            md["estimated_polynomial_degree"] = est
            g = None
            if interp.ctx.decide(2, f"integral {i} has quadrature_degree metadata") == 1:
                g = SV(z3.Int(f"given_degree_{i}"), "int")
                md["quadrature_degree"] = g
            r = None
            if interp.ctx.decide(2, f"integral {i} has quadrature_rule metadata") == 1:
                r = SV(z3.String(f"given_rule_{i}"), "str")
                md["quadrature_rule"] = r
            q = None
            if interp.ctx.decide(2, f"integral {i} contains a quadrature element") == 1:
                q = (f"points_of_integral_{i}", f"weights_of_integral_{i}")
            given.append((g, r, est, q))
            si = StubIntegral(md)
            si.elements = [StubQuadratureElement(q)] if q else [StubElement()]
            integrals.append(si)
        interp.ctx.ghost["given"] = given
        idata = types.SimpleNamespace(integrals=integrals)
        return types.SimpleNamespace(integral_data=[idata])

    return make


def register(reg):
    # externals of the fragment
    reg.effects[ufl.algorithms.extract_elements] = lambda interp, fn, args, kwargs: list(args[0].elements)
    reg.interp_force.add(StubQuadratureElement.custom_quadrature)
    reg.interp_force.add(StubIntegral.metadata)

    def np_max(interp, x, *a, **k):
        return x  # estimated degree is a scalar here (np.max of a scalar)

    models._MODELS[np.max] = models.Model(np_max)
    frag = fragment("ffcx/analysis.py::_analyze_form", "for id, integral_data in enumerate(form_data.integral_data):",
                    params=["form_data"], returns="form_data", name="_analyze_form#metadata-loop")
    reg.add(Contract(
        "ffcx/analysis.py::_analyze_form", dict(form_data=Custom(make_form_data(2))), fn=frag, ghost_names=["given"],
        ensures=[
            # each integral keeps ITS OWN degree: the given one if >= 0, else its own estimate
            "all([ghost('given')[i][3] is not None or form_data.integral_data[0].integrals[i].metadata()['quadrature_degree'] == (ghost('given')[i][0] if (ghost('given')[i][0] is not None"
            " and not (ghost('given')[i][0] < 0)) else ghost('given')[i][2]) for i in range(2)])",
            "all([ghost('given')[i][3] is not None or form_data.integral_data[0].integrals[i].metadata()['quadrature_rule'] == (ghost('given')[i][1] if ghost('given')[i][1] is not None else 'default')"
            " for i in range(2)])",
            # an integral with a quadrature element uses exactly that element's points and weights; no other integral does
            "all([ghost('given')[i][3] is None or (form_data.integral_data[0].integrals[i].metadata()['quadrature_rule'] == 'custom'"
            " and form_data.integral_data[0].integrals[i].metadata()['quadrature_points'] == ghost('given')[i][3][0]"
            " and form_data.integral_data[0].integrals[i].metadata()['quadrature_weights'] == ghost('given')[i][3][1]) for i in range(2)])",
        ],
        properties=["C11", "C01", "C06"], modular=False, name="_analyze_form#metadata-loop",
        bounded="2 integrals in one integral-data group; at most one quadrature element per integral",
        mutants=[('qd = int(np.max(integral.metadata()["estimated_polynomial_degree"]))', 'qd = 1'),
                 ("if qd < 0:", "if qd <= 0:")]))


class Key:
    def __init__(self, name, **kw):
        self.name = name
        self.__dict__.update(kw)

    def __repr__(self):
        return f"<{self.name}>"


def register_representation(reg):
    N = 3
    coeffs = [Key(f"coeff{i}") for i in range(N)]
    els = [Key(f"el{i}") for i in range(N)]

    def mk_form_data(interp, name):
        consts = []
        shapes = [(), (SV(z3.Int("n1"), "int"),), (SV(z3.Int("n2"), "int"), SV(z3.Int("n3"), "int"))]
        for i, sh in enumerate(shapes):
            for s in sh:
                interp.ctx.assume(s.z >= 1)
            consts.append(Key(f"const{i}", ufl_shape=sh))
        interp.ctx.ghost["consts"] = consts
        of = types.SimpleNamespace(constants=lambda: consts)
        return types.SimpleNamespace(reduced_coefficients=list(coeffs), coefficient_elements=list(els), original_form=of)

    def mk_dims(interp, name):
        d = {}
        for i, e in enumerate(els):
            v = SV(z3.Int(f"dim{i}"), "int")
            interp.ctx.assume(v.z >= 1)
            d[e] = v
        return d

    frag = fragment("ffcx/ir/representation.py::_compute_integral_ir", "coefficient_numbering: dict[ufl.Coefficient, int] = {}",
                    last="expression_ir['original_constant_offsets'] = original_constant_offsets",
                    params=["integral_type", "form_data", "element_dimensions", "expression_ir", "itg_data"],
                    returns="expression_ir", name="_compute_integral_ir#offsets")
    reg.add(Contract(
        "ffcx/ir/representation.py::_compute_integral_ir",
        dict(integral_type=Enum("cell", "exterior_facet", "interior_facet", "vertex", "ridge"), form_data=Custom(mk_form_data),
             element_dimensions=Custom(mk_dims), expression_ir=Custom(lambda i, n: {}),
             itg_data=Custom(lambda i, n: types.SimpleNamespace(enabled_coefficients=[SV(z3.Bool(f"enabled{k}"), "bool") for k in range(N)]))),
        fn=frag,
        ensures=[
            # coefficient k of the reduced form starts at width * sum of the dimensions of the coefficients before it,
            # whatever the per-integral enabled flags are
            "all([result['coefficient_offsets'][form_data.reduced_coefficients[k]] == (2 if integral_type == 'interior_facet' else 1)"
            " * sum([element_dimensions[form_data.coefficient_elements[j]] for j in range(k)]) for k in range(3)])",
            "all([result['coefficient_numbering'][form_data.reduced_coefficients[k]] == k for k in range(3)])",
            # constants: original order, flattened row-major sizes
            "all([result['original_constant_offsets'][form_data.original_form.constants()[k]]"
            " == sum([prod(form_data.original_form.constants()[j].ufl_shape) for j in range(k)]) for k in range(3)])",
        ],
        properties=["C05", "C02"], modular=False, name="_compute_integral_ir#offsets",
        bounded="3 coefficients, 3 constants of rank 0,1,2 (loop bodies are uniform in the position)",
        mutants=[("_offset += width * element_dimensions[el]", "_offset += element_dimensions[el]"),
                 ('width = 2 if integral_type in ("interior_facet") else 1', 'width = 2 if integral_type in ("exterior_facet") else 1')]))
    # tensor shape: doubled per argument iff interior facet; diagonal keeps the first only
    frag2 = fragment("ffcx/ir/representation.py::_compute_integral_ir", "if expression_ir['integral_type'] == 'interior_facet':",
                     last="if diagonalise:", params=["expression_ir", "argument_dimensions", "diagonalise"],
                     returns="expression_ir", name="_compute_integral_ir#tensor_shape")
    reg.add(Contract(
        "ffcx/ir/representation.py::_compute_integral_ir",
        dict(expression_ir=Custom(lambda i, n: {"integral_type": ["cell", "exterior_facet", "interior_facet", "vertex", "ridge"][i.ctx.decide(5, "itype")]}),
             argument_dimensions=ListOf(Int(1), (0, 2)), diagonalise=Enum(False, True)),
        fn=frag2, requires=["implies(diagonalise, len(argument_dimensions) == 2)"],
        ensures=[
            "len(result['tensor_shape']) == (1 if diagonalise else len(argument_dimensions))",
            "all([result['tensor_shape'][k] == (2 if result['integral_type'] == 'interior_facet' else 1) * argument_dimensions[k]"
            " for k in range(len(result['tensor_shape']))])",
        ],
        properties=["C02", "C08", "C10"], modular=False, name="_compute_integral_ir#tensor_shape", bounded="rank <= 2",
        mutants=[("[2 * dim for dim in argument_dimensions]", "[dim for dim in argument_dimensions]")]))


def register_form_ir(reg):
    """_compute_form_ir: 'otherwise' -> -1, one (id, name, domains) triple per id of each integral group (C06)."""
    TYPES = ("cell", "exterior_facet", "interior_facet", "vertex", "ridge")

    def mk(interp, name):
        groups = []
        names, doms = {}, {}
        n_groups = 1 + interp.ctx.decide(2, "number of integral groups")
        for g in range(n_groups):
            typ = TYPES[interp.ctx.decide(2, f"type of group {g}")]  # cell or exterior_facet
            nid = 1 + interp.ctx.decide(2, f"ids in group {g}")
            sid = []
            for k in range(nid):
                if interp.ctx.decide(2, f"group {g} id {k} is 'otherwise'") == 1:
                    sid.append("otherwise")
                else:
                    sid.append(SV(z3.Int(f"id_{g}_{k}"), "int"))
            groups.append(types.SimpleNamespace(integral_type=typ, subdomain_id=tuple(sid)))
            names[(0, g)] = f"integral_name_{g}"
            doms[f"integral_name_{g}"] = Key(f"domains_{g}")
        ir = {"subdomain_ids": {t: [] for t in TYPES}, "integral_names": {t: [] for t in TYPES}, "integral_domains": {t: [] for t in TYPES}}
        return types.SimpleNamespace(ir=ir, form_data=types.SimpleNamespace(integral_data=groups), integral_names=names,
                                     integral_domains=doms, form_id=0, groups=groups)

    frag = fragment("ffcx/ir/representation.py::_compute_form_ir", "for itg_index, itg_data in enumerate(form_data.integral_data):",
                    params=["ir", "form_data", "integral_names", "integral_domains", "form_id"], returns="ir",
                    name="_compute_form_ir#integral-lists")
    reg.add(Contract(
        "ffcx/ir/representation.py::_compute_form_ir", dict(case=Custom(mk)), fn=frag,
        call=["case.ir", "case.form_data", "case.integral_names", "case.integral_domains", "case.form_id"],
        ensures=[
            "all([len(result['subdomain_ids'][t]) == len(result['integral_names'][t]) and len(result['subdomain_ids'][t])"
            " == len(result['integral_domains'][t]) for t in result['subdomain_ids']])",
            # per type: the concatenation over its groups (in order) of (id or -1 for 'otherwise', group name, group domains)
            "all([result['subdomain_ids'][t] == [(-1 if s == 'otherwise' else s) for g in case.groups if g.integral_type == t for s in g.subdomain_id]"
            " for t in result['subdomain_ids']])",
            "all([result['integral_names'][t] == [case.integral_names[(0, k)] for k, g in enumerate(case.groups) if g.integral_type == t"
            " for s in g.subdomain_id] for t in result['subdomain_ids']])",
            "all([result['integral_domains'][t] == [case.integral_domains[case.integral_names[(0, k)]] for k, g in enumerate(case.groups)"
            " if g.integral_type == t for s in g.subdomain_id] for t in result['subdomain_ids']])",
            # negative ids other than the -1 of 'otherwise' are rejected
            "all([all([s >= -1 for s in result['subdomain_ids'][t]]) for t in result['subdomain_ids']])",
        ],
        properties=["C06"], modular=False, name="_compute_form_ir#integral-lists", bounded="<= 2 integral groups with <= 2 ids each",
        mutants=[('sid if sid != "otherwise" else -1', 'sid if sid != "otherwise" else 0'),
                 ('ir["integral_names"][integral_type] += [iname]', 'ir["integral_names"][integral_type] = [iname]')]))
