"""Contracts on ffcx/codegeneration/lnodes.py (C17, C01, C08, C09)."""
import ffcx.codegeneration.lnodes as L
from contracts import lnodes_shapes as S
from contracts import spec
from pyvc.contract import Contract, Custom, Int, Lazy, ListOf, OneOf, Real

LEXPR = Custom(S.lexpr)
NUM_OR_LEXPR = OneOf(LEXPR, Int(), Real())
F = "ffcx/codegeneration/lnodes.py::"


def register(reg):
    def op(name, ens, requires=(), mutants=()):
        reg.add(Contract(F + f"LExpr.{name}", dict(self=LEXPR, other=NUM_OR_LEXPR), ensures=[ens],
                         requires=list(requires), result=LEXPR, properties=["C17"], mutants=mutants))

    op("__add__", "ev(result, env) == ev(self, env) + ev(other, env)",
       mutants=[("return Sub(self, other.arg)", "return Add(self, other.arg)"),
                ("if is_zero_lexpr(other):\n            return self\n        if isinstance(other, Neg)",
                 "if is_zero_lexpr(other):\n            return other\n        if isinstance(other, Neg)")])
    op("__radd__", "ev(result, env) == ev(other, env) + ev(self, env)",
       mutants=[("return Sub(other, self.arg)", "return Sub(self.arg, other)")])
    op("__sub__", "ev(result, env) == ev(self, env) - ev(other, env)",
       mutants=[("if is_zero_lexpr(self):\n            return -other", "if is_zero_lexpr(self):\n            return other"),
                ("return LiteralInt(self.value - other.value)", "return LiteralInt(other.value - self.value)")])
    op("__rsub__", "ev(result, env) == ev(other, env) - ev(self, env)",
       mutants=[("if is_zero_lexpr(other):\n            return -self", "if is_zero_lexpr(other):\n            return self"),
                ("return Add(other, self.arg)", "return Sub(other, self.arg)")])
    op("__mul__", "ev(result, env) == ev(self, env) * ev(other, env)",
       mutants=[("if is_negative_one_lexpr(other):\n            return Neg(self)", "if is_negative_one_lexpr(other):\n            return self"),
                ("return LiteralInt(self.value * other.value)", "return LiteralInt(self.value + other.value)")])
    op("__rmul__", "ev(result, env) == ev(other, env) * ev(self, env)",
       mutants=[("if is_one_lexpr(self):\n            return other", "if is_one_lexpr(self):\n            return self")])
    op("__div__", "implies(ev(other, env) != 0, ev(result, env) == env.div(ev(self, env), ev(other, env)))",
       mutants=[("if is_zero_lexpr(self):\n            return self\n        return Div(self, other)",
                 "if is_zero_lexpr(self):\n            return other\n        return Div(self, other)")])
    op("__rdiv__", "implies(ev(self, env) != 0, ev(result, env) == env.div(ev(other, env), ev(self, env)))",
       mutants=[("return Div(other, self)", "return Div(self, other)")])
    reg.add(Contract(F + "LExpr.__neg__", dict(self=LEXPR), ensures=["ev(result, env) == -ev(self, env)"],
                     result=LEXPR, properties=["C17"],
                     mutants=[("return LiteralInt(-self.value)", "return LiteralInt(self.value)")]))
    # aliases must be the verified functions themselves
    reg.alias_checks = getattr(reg, "alias_checks", [])
    reg.alias_checks += [
        ("LExpr.__truediv__ is LExpr.__div__", lambda: L.LExpr.__truediv__ is L.LExpr.__div__),
        ("LExpr.__rtruediv__ is LExpr.__rdiv__", lambda: L.LExpr.__rtruediv__ is L.LExpr.__rdiv__),
        ("LExpr.__floordiv__ is LExpr.__div__", lambda: L.LExpr.__floordiv__ is L.LExpr.__div__),
        ("LExpr.__rfloordiv__ is LExpr.__rdiv__", lambda: L.LExpr.__rfloordiv__ is L.LExpr.__rdiv__),
    ]


def register_dtypes(reg):
    """merge_dtypes lattice, _math_function simplifications (C09)."""
    import types as _t

    from pyvc.contract import Const, Enum, ListOf, Rec, Ref, Str

    DT = list(L.DataType)
    reg.add(Contract(F + "merge_dtypes", dict(dtypes=ListOf(Ref(*DT), (1, 3))),
                     requires=["L.DataType.NONE not in dtypes"],
                     ensures=["result == (L.DataType.SCALAR if L.DataType.SCALAR in dtypes else (L.DataType.REAL if L.DataType.REAL in dtypes"
                              " else (L.DataType.INT if L.DataType.INT in dtypes else L.DataType.BOOL)))"],
                     properties=["C09"], modular=False, bounded="len(dtypes) <= 3",
                     mutants=[("if DataType.SCALAR in dtypes:\n        return DataType.SCALAR\n    elif DataType.REAL in dtypes:\n        return DataType.REAL",
                               "if DataType.REAL in dtypes:\n        return DataType.REAL\n    elif DataType.SCALAR in dtypes:\n        return DataType.SCALAR")]))
    OP = Enum(*[_t.SimpleNamespace(_ufl_handler_name_=n) for n in ("conj", "real", "imag", "sqrt", "abs")])
    ARG = Custom(lambda interp, name: _typed_lexpr(interp, name))
    reg.add(Contract(F + "_math_function", dict(op=OP, a0=ARG), call=["op", "a0"],
                     ensures=[
                         "implies(a0.dtype == L.DataType.REAL and op._ufl_handler_name_ in ('conj', 'real'), result is a0)",
                         "implies(a0.dtype == L.DataType.REAL and op._ufl_handler_name_ == 'imag',"
                         " isinstance(result, L.LiteralFloat) and result.value == 0.0)",
                         "implies(a0.dtype != L.DataType.REAL or op._ufl_handler_name_ in ('sqrt', 'abs'),"
                         " isinstance(result, L.MathFunction) and result.function == op._ufl_handler_name_ and result.args[0] is a0)",
                     ],
                     properties=["C09", "C17"], modular=False,
                     mutants=[('if name in ("conj", "real") and dtype == DataType.REAL:', 'if name in ("conj", "real"):'),
                              ("return LiteralFloat(0.0)", "return args[0]")]))


def _typed_lexpr(interp, name):
    return S.lexpr(interp, name)


def register_index(reg):
    """MultiIndex flattening, float_product, create_nested_for_loops, ArrayAccess bound checks (C01, C08, C17)."""
    import z3

    from pyvc.contract import Const, Enum, ListOf, Rec
    from pyvc.values import SV, SObj

    INT_LEXPR = Custom(S.lexpr)

    def new_mi(interp, name):
        so = SObj(L.MultiIndex)
        return so

    for rank in range(0, 4):
        reg.add(Contract(
            F + "MultiIndex.__init__",
            dict(self=Custom(new_mi), symbols=ListOf(OneOf(INT_LEXPR, Int()), rank), sizes=ListOf(Int(1), rank)),
            ensures=[
                # row-major flattening (Horner): ev(global_index) = flat(ev(symbols), sizes)
                "ev(self.global_index, env) == flat([ev(s, env) for s in symbols], sizes)",
                "len(self.symbols) == len(symbols) and self.sizes is sizes",
            ],
            properties=["C01", "C08", "C17", "C04"], modular=False, name=f"MultiIndex.__init__[rank {rank}]", bounded="rank <= 3",
            mutants=[("zip(stride[1:], symbols)", "zip(stride[:-1], symbols)")] if rank == 2 else []))
    # L-HORNER for the ranks FFCx builds: in range and injective
    # float_product
    for n in range(0, 4):
        reg.add(Contract(
            F + "float_product", dict(factors=ListOf(OneOf(Custom(S.lexpr)), n)),
            ensures=["ev(result, env) == prod([ev(f, env) for f in factors])"],
            properties=["C17", "C01"], modular=False, name=f"float_product[{n} factors]", bounded="<= 3 factors",
            mutants=[("factors = [f for f in factors if not is_one_lexpr(f)]", "factors = [f for f in factors if not is_zero_lexpr(f)]")] if n == 2 else []))
