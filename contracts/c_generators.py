"""Fragment contracts on integral_generator.generate_block_parts / expression_generator (C01, C02, C04, C07, C08, C10)."""
import collections
import types

import z3

import ffcx.codegeneration.lnodes as L
from contracts import lnodes_shapes as S
from pyvc.contract import Const, Contract, Custom, Enum, fragment
from pyvc.values import SV

IG = "ffcx/codegeneration/integral_generator.py::IntegralGenerator.generate_block_parts"


def register(reg):
    def mk_case(interp, name):
        rank = 1 + interp.ctx.decide(2, "insert_rank")
        B, ma, bm = [], [], []
        for i in range(rank):
            gi = S.lexpr(interp, f"B{i}.global_index")
            B.append(types.SimpleNamespace(global_index=gi))
            off = SV(z3.Int(f"offset{i}"), "int")
            bs = SV(z3.Int(f"block_size{i}"), "int")
            interp.ctx.assume(z3.And(off.z >= 0, bs.z >= 1))
            ma.append(types.SimpleNamespace(tabledata=types.SimpleNamespace(offset=off, block_size=bs)))
            n = [1, 3][interp.ctx.decide(2, f"len(blockmap[{i}])")]
            bm.append(tuple(range(n)))
        return types.SimpleNamespace(insert_rank=rank, B_indices=B, blockdata=types.SimpleNamespace(ma_data=ma), blockmap=tuple(bm),
                                     rhs=collections.defaultdict(list), B_rhs=L.Symbol("fw0", L.DataType.SCALAR))

    frag = fragment(IG, "A_indices = []", last="rhs_expressions[tuple(A_indices)].append(B_rhs)",
                    params=["insert_rank", "B_indices", "blockdata", "blockmap", "rhs_expressions", "B_rhs"],
                    returns="(A_indices, rhs_expressions)", name="generate_block_parts#A_indices")
    reg.add(Contract(
        IG, dict(case=Custom(mk_case)), fn=frag,
        call=["case.insert_rank", "case.B_indices", "case.blockdata", "case.blockmap", "case.rhs", "case.B_rhs"],
        ensures=[
            "len(result[0]) == case.insert_rank",
            # A index of argument i = offset_i + block_size_i * (flattened dof index)  [= blockmap[i][dof] under wf_blockmap];
            # a single-dof block uses offset_i + index
            "all([ev(result[0][i], env) == case.blockdata.ma_data[i].tabledata.offset"
            " + (1 if len(case.blockmap[i]) == 1 else case.blockdata.ma_data[i].tabledata.block_size) * ev(case.B_indices[i].global_index, env)"
            " for i in range(case.insert_rank)])",
            "list(result[1].keys()) == [tuple(result[0])] and result[1][tuple(result[0])] == [case.B_rhs]",
        ],
        properties=["C01", "C02", "C08"], modular=False, name="generate_block_parts#A_indices", bounded="rank <= 2",
        mutants=[("A_indices.append(block_size * index.global_index + offset)", "A_indices.append(index.global_index + block_size * offset)")]))

    # every statement that targets A is  A[flat(indices)] += expression
    def mk_keep(interp, name):
        rank = 1 + interp.ctx.decide(2, "rank")
        shape = [SV(z3.Int(f"A_shape{i}"), "int") for i in range(rank)]
        for s in shape:
            interp.ctx.assume(s.z >= 1)
        idx = tuple(S.lexpr(interp, f"Aidx{i}") for i in range(rank))
        exprs = [L.Symbol("e0", L.DataType.SCALAR), L.Symbol("e1", L.DataType.SCALAR)]
        symbols = types.SimpleNamespace(element_tensor=L.Symbol("A", L.DataType.SCALAR))
        return types.SimpleNamespace(keep={idx: exprs}, A_shape=shape, idx=idx, exprs=exprs,
                                     self=types.SimpleNamespace(backend=types.SimpleNamespace(symbols=symbols)))

    frag2 = fragment(IG, "body: list[L.LNode] = []", last="for indices in keep:", params=["keep", "A_shape", "self"], returns="body",
                     name="generate_block_parts#A_updates")
    reg.add(Contract(
        IG, dict(case=Custom(mk_keep)), fn=frag2, call=["case.keep", "case.A_shape", "case.self"],
        ensures=[
            "len(result) == len(case.exprs)",
            "all([isinstance(s, L.AssignAdd) and is_access(s.lhs, 'A', 1) for s in result])",
            "all([ev(idx(s.lhs, 0), env) == flat([ev(i, env) for i in case.idx], case.A_shape) for s in result])",
            "all([result[k].rhs is case.exprs[k] for k in range(len(case.exprs))])",
        ],
        properties=["C01", "C07", "C08"], modular=False, name="generate_block_parts#A_updates", bounded="rank <= 2",
        mutants=[("body.append(L.AssignAdd(A[multi_index], expression))", "body.append(L.Assign(A[multi_index], expression))")]))


def register_expression(reg):
    EG = "ffcx/codegeneration/expression_generator.py::ExpressionGenerator.generate_block_parts"

    def mk(interp, name):
        rank = interp.ctx.decide(2, "block_rank")  # 0 or 1 arguments
        bms, idxs = [], []
        for i in range(rank):
            n = [1, 2, 4][interp.ctx.decide(3, f"len(blockmap[{i}])")]
            o = SV(z3.Int(f"first_dof{i}"), "int")
            s = SV(z3.Int(f"stride{i}"), "int")
            interp.ctx.assume(z3.And(o.z >= 0, s.z >= 1))
            bms.append(tuple(SV(z3.simplify(o.z + k * s.z), "int") for k in range(n)))
            idxs.append(L.Symbol("ijkl"[i], L.DataType.INT))
        return types.SimpleNamespace(blockmap=tuple(bms), arg_indices=tuple(idxs), iq=L.Symbol("iq", L.DataType.INT))

    frag = fragment(EG, "A_indices = []", last="A_indices = tuple([iq] + A_indices)", params=["blockmap", "arg_indices", "iq"],
                    returns="A_indices", name="ExpressionGenerator.generate_block_parts#A_indices")
    reg.add(Contract(
        EG, dict(case=Custom(mk)), fn=frag, call=["case.blockmap", "case.arg_indices", "case.iq"],
        ensures=[
            "len(result) == 1 + len(case.blockmap) and result[0] is case.iq",
            # argument dof index: blockmap[r][i] for equally spaced dofs (bm[0] + (bm[1]-bm[0]) * i)
            "all([ev(result[r + 1], env) == case.blockmap[r][0] + ((case.blockmap[r][1] - case.blockmap[r][0]) if len(case.blockmap[r]) > 1 else 1)"
            " * env.sym(case.arg_indices[r].name) for r in range(len(case.blockmap))])",
        ],
        properties=["C04", "C08"], modular=False, name="ExpressionGenerator.generate_block_parts#A_indices", bounded="rank <= 1",
        mutants=[("A_indices.append(block_size * index + offset)", "A_indices.append(block_size * (index + offset))")]))

    # A[point][component][dof]: the flat index
    def mk2(interp, name):
        rank = interp.ctx.decide(2, "rank")
        shape = [SV(z3.Int(n_), "int") for n_ in ["num_points", "components"] + ["dim0"][:rank]]
        for s in shape:
            interp.ctx.assume(s.z >= 1)
        A_indices = tuple([L.Symbol("iq", L.DataType.INT)] + [S.lexpr(interp, f"dof{i}") for i in range(rank)])
        comp = SV(z3.Int("component"), "int")
        interp.ctx.assume(comp.z >= 0)
        f = L.Symbol("sv_0", L.DataType.SCALAR)
        Fg = types.SimpleNamespace(nodes={0: {"expression": "v0"}})
        slf = types.SimpleNamespace(get_var=lambda v: f)
        bd = types.SimpleNamespace(factor_indices_comp_indices=[(0, comp)])
        return types.SimpleNamespace(A_indices=A_indices, A_shape=shape, comp=comp, f=f, F=Fg, self=slf, blockdata=bd,
                                     arg_factors=[L.Symbol("FE0", L.DataType.REAL)[L.Symbol("i", L.DataType.INT)]][:rank],
                                     A=L.Symbol("A", L.DataType.SCALAR))

    frag2 = fragment(EG, "body = []", last="for fi_ci in blockdata.factor_indices_comp_indices:",
                     params=["blockdata", "self", "F", "arg_factors", "A_indices", "A_shape", "A"], returns="body",
                     name="ExpressionGenerator.generate_block_parts#A_updates")
    reg.add(Contract(
        EG, dict(case=Custom(mk2)), fn=frag2,
        call=["case.blockdata", "case.self", "case.F", "case.arg_factors", "case.A_indices", "case.A_shape", "case.A"],
        ensures=[
            "len(result) == 1 and isinstance(result[0], L.AssignAdd) and is_access(result[0].lhs, 'A', 1)",
            # ufcx.h: A[num_points][num_components][num_argument_dofs]
            "ev(idx(result[0].lhs, 0), env) == flat([env.sym('iq'), case.comp] + [ev(d, env) for d in case.A_indices[1:]], case.A_shape)",
        ],
        properties=["C04", "C07", "C08"], modular=False, name="ExpressionGenerator.generate_block_parts#A_updates", bounded="rank <= 1",
        mutants=[("indices = [A_indices[0], fi_ci[1]] + list(A_indices[1:])", "indices = [fi_ci[1], A_indices[0]] + list(A_indices[1:])")]))


def register_scopes(reg):
    """IntegralGenerator.get_var / set_var: the rule scope is consulted first, the rule-independent scope only as a fallback
    (C11, C01)."""
    import ffcx.codegeneration.integral_generator as IGm

    class _V:
        _ufl_is_literal_ = False

        def __repr__(self):
            return "<ufl expr v>"

    V = _V()
    R1, R2 = ("cell", "rule1"), ("cell", "rule2")
    A1, A2, AP = (L.Symbol(n, L.DataType.SCALAR) for n in ("sv_r1_0", "sv_r2_0", "sp_0"))

    def mk_self(interp, name):
        scopes = {R1: {}, R2: {}, (None, None): {}}
        present = []
        for key, acc in ((R1, A1), (R2, A2), ((None, None), AP)):
            if interp.ctx.decide(2, f"v in scope {key}") == 1:
                scopes[key][V] = acc
                present.append(key)
        interp.ctx.ghost["present"] = present
        return types.SimpleNamespace(scopes=scopes)

    reg.add(Contract(
        "ffcx/codegeneration/integral_generator.py::IntegralGenerator.get_var",
        dict(self=Custom(mk_self), quadrature_rule=Enum("rule1", "rule2"), domain=Const("cell"), v=Const(V)),
        ghost_names=["present"],
        ensures=[
            "implies((domain, quadrature_rule) in ghost('present'), result is self.scopes[(domain, quadrature_rule)][v])",
            "implies((domain, quadrature_rule) not in ghost('present') and (None, None) in ghost('present'), result is self.scopes[(None, None)][v])",
            "implies((domain, quadrature_rule) not in ghost('present') and (None, None) not in ghost('present'), result is None)",
        ],
        properties=["C11", "C01"], modular=False, name="IntegralGenerator.get_var",
        mutants=[('f = self.scopes[(None, None)].get(v)', 'f = self.scopes[(domain, "rule1")].get(v)')]))
