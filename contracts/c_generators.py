"""Fragment contracts on integral_generator.generate_block_parts / expression_generator (C01, C02, C04, C07, C08, C10)."""
import collections
import types

import z3

import ffcx.codegeneration.lnodes as L
from contracts import lnodes_shapes as S
from pyvc.contract import Const, Contract, Custom, Enum, fragment
from pyvc.values import SV

IG = "ffcx/codegeneration/integral_generator.py::IntegralGenerator.generate_block_parts"


def register(reg):
    def mk_case(interp, name):
        rank = 1 + interp.ctx.decide(2, "insert_rank")
        B, ma, bm = [], [], []
        for i in range(rank):
            gi = S.lexpr(interp, f"B{i}.global_index")
            B.append(types.SimpleNamespace(global_index=gi))
            off = SV(z3.Int(f"offset{i}"), "int")
            bs = SV(z3.Int(f"block_size{i}"), "int")
            interp.ctx.assume(z3.And(off.z >= 0, bs.z >= 1))
            ma.append(types.SimpleNamespace(tabledata=types.SimpleNamespace(offset=off, block_size=bs)))
            n = [1, 3][interp.ctx.decide(2, f"len(blockmap[{i}])")]
            bm.append(tuple(range(n)))
        return types.SimpleNamespace(insert_rank=rank, B_indices=B, blockdata=types.SimpleNamespace(ma_data=ma), blockmap=tuple(bm),
                                     rhs=collections.defaultdict(list), B_rhs=L.Symbol("fw0", L.DataType.SCALAR))

    frag = fragment(IG, "A_indices = []", last="rhs_expressions[tuple(A_indices)].append(B_rhs)",
                    params=["insert_rank", "B_indices", "blockdata", "blockmap", "rhs_expressions", "B_rhs"],
                    returns="(A_indices, rhs_expressions)", name="generate_block_parts#A_indices")
    reg.add(Contract(
        IG, dict(case=Custom(mk_case)), fn=frag,
        call=["case.insert_rank", "case.B_indices", "case.blockdata", "case.blockmap", "case.rhs", "case.B_rhs"],
        ensures=[
            "len(result[0]) == case.insert_rank",
            # A index of argument i = offset_i + block_size_i * (flattened dof index)  [= blockmap[i][dof] under wf_blockmap];
            # a single-dof block uses offset_i + index
            "all([ev(result[0][i], env) == case.blockdata.ma_data[i].tabledata.offset"
            " + (1 if len(case.blockmap[i]) == 1 else case.blockdata.ma_data[i].tabledata.block_size) * ev(case.B_indices[i].global_index, env)"
            " for i in range(case.insert_rank)])",
            "list(result[1].keys()) == [tuple(result[0])] and result[1][tuple(result[0])] == [case.B_rhs]",
        ],
        properties=["C01", "C02", "C08"], modular=False, name="generate_block_parts#A_indices", bounded="rank <= 2",
        mutants=[("A_indices.append(block_size * index.global_index + offset)", "A_indices.append(index.global_index + block_size * offset)")]))

    # every statement that targets A is  A[flat(indices)] += expression
    def mk_keep(interp, name):
        rank = 1 + interp.ctx.decide(2, "rank")
        shape = [SV(z3.Int(f"A_shape{i}"), "int") for i in range(rank)]
        for s in shape:
            interp.ctx.assume(s.z >= 1)
        idx = tuple(S.lexpr(interp, f"Aidx{i}") for i in range(rank))
        exprs = [L.Symbol("e0", L.DataType.SCALAR), L.Symbol("e1", L.DataType.SCALAR)]
        symbols = types.SimpleNamespace(element_tensor=L.Symbol("A", L.DataType.SCALAR))
        return types.SimpleNamespace(keep={idx: exprs}, A_shape=shape, idx=idx, exprs=exprs,
                                     self=types.SimpleNamespace(backend=types.SimpleNamespace(symbols=symbols)))

    frag2 = fragment(IG, "body: list[L.LNode] = []", last="for indices in keep:", params=["keep", "A_shape", "self"], returns="body",
                     name="generate_block_parts#A_updates")
    reg.add(Contract(
        IG, dict(case=Custom(mk_keep)), fn=frag2, call=["case.keep", "case.A_shape", "case.self"],
        ensures=[
            "len(result) == len(case.exprs)",
            "all([isinstance(s, L.AssignAdd) and is_access(s.lhs, 'A', 1) for s in result])",
            "all([ev(idx(s.lhs, 0), env) == flat([ev(i, env) for i in case.idx], case.A_shape) for s in result])",
            "all([result[k].rhs is case.exprs[k] for k in range(len(case.exprs))])",
        ],
        properties=["C01", "C07", "C08"], modular=False, name="generate_block_parts#A_updates", bounded="rank <= 2",
        mutants=[("body.append(L.AssignAdd(A[multi_index], expression))", "body.append(L.Assign(A[multi_index], expression))")]))
