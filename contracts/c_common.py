"""Contracts on ffcx/codegeneration/common.py (C06, C08, C18)."""
import itertools
import types

import ffcx.codegeneration.common as common
from contracts import spec
from pyvc.contract import Const, Contract, Custom, DictOf, Int, ListOf, Native, Rec, Str

F = "ffcx/codegeneration/common.py::"


class Dom:
    """Opaque stand-in for a basix.CellType in an integral's domain list."""

    def __init__(self, i):
        self.i = i

    def __repr__(self):
        return f"Dom{self.i}"


def ir_type(shape):
    """shape: tuple over the five integral types of tuples of domain-list lengths."""
    sub, names, doms = {}, {}, {}
    for typ, ds in zip(spec.ITG_TYPES, shape):
        sub[typ] = ListOf(Int(), len(ds))
        names[typ] = ListOf(Str(), len(ds))
        doms[typ] = Native(lambda ds=ds: [[Dom(i) for i in range(m)] for m in ds])
    return Rec(types.SimpleNamespace, subdomain_ids=DictOf(sub), integral_names=DictOf(names), integral_domains=DictOf(doms))


def shapes(max_total, max_dom):
    """All (n_t, domain sizes) with at most max_total integrals in total."""
    out = []
    for ns in itertools.product(range(max_total + 1), repeat=5):
        if sum(ns) > max_total or sum(ns) == 0:
            continue
        # domain-list sizes: all 1, or exactly one integral with max_dom kernels (each position)
        flat = [(t, i) for t, n in enumerate(ns) for i in range(n)]
        variants = [dict()]
        for pos in flat:
            variants.append({pos: max_dom})
        if len(flat) >= 2:
            variants.append({p: max_dom for p in flat})
        for var in variants:
            out.append(tuple(tuple(var.get((t, i), 1) for i in range(n)) for t, n in enumerate(ns)))
    return out


ENSURES = [
    "len(result.ids) == len(result.names) and len(result.names) == len(result.domains)"
    " and len(result.ids) == count_types_before(ir, 5)",
    "len(result.offsets) == 6 and result.offsets[0] == 0",
    "all([segment_nondecr(ir, result, t) for t in range(5)])",
    "all([segment_is_paired_permutation(ir, result, t) for t in range(5)])",
    # offsets delimit the kernels of each type: one kernel per (integral, domain) pair
    "all([result.offsets[t + 1] - result.offsets[t] == sumlen(ir.integral_domains[ITG_TYPES[t]]) for t in range(5)])",
]


def register(reg, tier="quick"):
    max_total = 3 if tier == "quick" else 4
    for sh in shapes(max_total, 2):
        tag = "|".join(",".join(map(str, s)) for s in sh)
        c = Contract(F + "integral_data", dict(ir=ir_type(sh)),
                     requires=[  # an (id, kernel name) pair occurs once per type: an id may be served by several integral groups
                                        # (different metadata) and a group name repeats for each id of a tuple id
                                        "all([distinct_pairs(ir.subdomain_ids[t], ir.integral_names[t]) for t in ITG_TYPES])"],
                     ensures=ENSURES, properties=["C06", "C18"], modular=False,
                     name=f"integral_data[{tag}]", bounded=f"#integrals<={max_total}, #kernels per integral<=2",
                     mutants=[("id_sort = np.argsort(_ids)", "id_sort = list(range(len(_ids)))"),
                              ("names += [ir.integral_names[itg_type][i] for i in id_sort]",
                               "names += ir.integral_names[itg_type]")] if tag == "1,1||||" else [])
        reg.add(c)
    # the tuple literal the loop iterates is the ufcx_integral_type enum order
    reg.finite_checks = getattr(reg, "finite_checks", [])


def register_unbounded(reg):
    """integral_data for lists of ANY length (prove mode with the list algebra of pyvc/slist.py)."""
    import z3

    from pyvc import models, slist
    from pyvc.contract import Custom
    from pyvc.values import SV, fresh_name

    def mk_ir(interp, name):
        sub, names, doms = {}, {}, {}
        for typ in spec.ITG_TYPES:
            n = SV(z3.Int(f"n_{typ}"), "int")
            interp.ctx.assume(n.z >= 0)
            sub[typ] = slist.SList([slist.Base(f"ids_{typ}", n, "int")])
            names[typ] = slist.SList([slist.Base(f"names_{typ}", n, "str")])
            d = slist.Base(f"domains_{typ}", n, "obj", attrs=("len",))
            doms[typ] = slist.SList([d])
        return types.SimpleNamespace(subdomain_ids=sub, integral_names=names, integral_domains=doms)

    def forall_k(interp, fn, args, kwargs):
        n, f = args
        k = SV(z3.Int(fresh_name("k")), "int")
        with interp.ctx.scope():
            interp.ctx.assume(z3.And(k.z >= 0, k.z < models.to_z3(n, "int")))
            v = interp.call(f, [k], {})
            z = models.as_bool_sv(interp, v)
            if z is True:
                return True
            if z is not False:
                st, _ = interp.ctx.valid(z.z)
                if st == "proved":
                    return True
        interp.ctx.notes.append("forall_k body not provable for an arbitrary index")
        return SV(z3.Bool(fresh_name("forall_unproved")), "bool", havoc=True)

    def paired_gather(interp, fn, args, kwargs):
        ir, result, t = args
        typ = spec.ITG_TYPES[t]
        try:
            ids, nm, dm = interp.getattr(result, "ids"), interp.getattr(result, "names"), interp.getattr(result, "domains")
            ok = all(isinstance(x, slist.SList) and len(x.segs) == 5 for x in (ids, nm, dm))
            if ok:
                ki, si, pi = slist.provenance(ids, t)
                kn, sn, pn = slist.provenance(nm, t)
                kd, sd, pd = slist.provenance(dm, t)
                ok = (ki == kn == kd == "gather" and pi is pn and pn is pd and pi.src is ir.subdomain_ids[typ].segs[0]
                      and si is ir.subdomain_ids[typ].segs[0] and sn is ir.integral_names[typ].segs[0]
                      and sd is ir.integral_domains[typ].segs[0])
        except Exception:  # noqa: BLE001
            ok = False
        if ok:
            interp.ctx.ghost.setdefault("list_lemmas", set()).add(
                "L-GATHER: lists gathered from X, N, D through one permutation of range(n) are a paired permutation of (X, N, D)")
            return True
        interp.ctx.notes.append("paired_gather: segments are not gathers through one argsort permutation")
        return SV(z3.Bool(fresh_name("paired_unproved")), "bool", havoc=True)

    reg.effects[spec.forall_k] = forall_k
    reg.effects[spec.paired_gather] = paired_gather
    reg.add(Contract(
        F + "integral_data", dict(ir=Custom(mk_ir)),
        ensures=[
            "len(result.ids) == len(result.names) and len(result.names) == len(result.domains)"
            " and len(result.ids) == count_types_before(ir, 5)",
            "len(result.offsets) == 6 and result.offsets[0] == 0",
            "all([forall_k(len(ir.subdomain_ids[ITG_TYPES[t]]) - 1, lambda k: result.ids[count_types_before(ir, t) + k]"
            " <= result.ids[count_types_before(ir, t) + k + 1]) for t in range(5)])",
            "all([paired_gather(ir, result, t) for t in range(5)])",
            "all([result.offsets[t + 1] - result.offsets[t] == sum([len(d) for d in ir.integral_domains[ITG_TYPES[t]]]) for t in range(5)])",
        ],
        properties=["C06", "C18"], modular=False, name="integral_data[any length]",
        note="prove mode: symbolic-length lists (pyvc/slist.py); np.argsort external; lemmas L-LIST recorded as assumptions",
        mutants=[("names += [ir.integral_names[itg_type][i] for i in id_sort]", "names += ir.integral_names[itg_type]"),
                 ("domains[num_integrals:]", "domains[offsets[-1] :]"),
                 ("domains += [ir.integral_domains[itg_type][i] for i in id_sort]",
                  "domains += [ir.integral_domains[itg_type][i] for i in np.argsort(_ids)]")]))


def register_tensor_sizes(reg):
    """common.tensor_sizes(IntegralIR): the sizes the numba wrapper declares cover the UFCx extents (C08, C18)."""
    import z3

    from ffcx.ir.representation import IntegralIR
    from pyvc.contract import Bool, Custom, Enum
    from pyvc.values import SV

    class Obj:
        def __init__(self, **kw):
            self.__dict__.update(kw)

    def mk_ir(interp, name):
        def pos(n):
            v = SV(z3.Int(n), "int")
            interp.ctx.assume(v.z >= 1)
            return v

        rank = interp.ctx.decide(3, "rank")
        itype = ["cell", "exterior_facet", "interior_facet", "vertex", "ridge"][interp.ctx.decide(5, "integral_type")]
        dims = [pos(f"dim{k}") for k in range(2)]
        coeffs = {Obj(ufl_element=(lambda d=d: Obj(dim=d))): 0 for d in dims}
        shapes = [(), (pos("n1"),), (pos("n2"), pos("n3"))]
        consts = {Obj(ufl_shape=s): 0 for s in shapes}
        expr = Obj(tensor_shape=[pos(f"A{k}") for k in range(rank)], coefficient_offsets=coeffs, original_constant_offsets=consts,
                   number_coordinate_dofs=pos("ncd"), needs_facet_permutations=SV(z3.Bool("needs_perm"), "bool"), integral_type=itype)
        interp.ctx.ghost["dims"] = dims
        interp.ctx.ghost["shapes"] = shapes
        return Obj(expression=expr)

    fn = common.tensor_sizes.registry[IntegralIR]
    reg.add(Contract(
        F + "tensor_sizes[IntegralIR]", dict(ir=Custom(mk_ir)), fn=fn, ghost_names=["dims", "shapes"],
        ensures=[
            "result.A == prod(ir.expression.tensor_shape)",
            # w[coefficient][restriction][dof]: doubled for interior facets
            "result.w == (2 if ir.expression.integral_type == 'interior_facet' else 1) * sum(ghost('dims'))",
            "result.c == sum([prod(s) for s in ghost('shapes')])",
            "result.coords == (2 if ir.expression.integral_type == 'interior_facet' else 1) * 3 * ir.expression.number_coordinate_dofs",
            "result.local_index >= 2 and implies(ir.expression.needs_facet_permutations, result.permutation >= 2)",
        ],
        properties=["C08", "C18"], modular=False, name="tensor_sizes[IntegralIR]", bounded="2 coefficients, 3 constants, rank <= 2",
        mutants=[("w = width * sum(", "w = sum(")]))
