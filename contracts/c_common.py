"""Contracts on ffcx/codegeneration/common.py (C06, C08, C18)."""
import itertools
import types

import ffcx.codegeneration.common as common
from contracts import spec
from pyvc.contract import Const, Contract, Custom, DictOf, Int, ListOf, Native, Rec, Str

F = "ffcx/codegeneration/common.py::"


class Dom:
    """Opaque stand-in for a basix.CellType in an integral's domain list."""

    def __init__(self, i):
        self.i = i

    def __repr__(self):
        return f"Dom{self.i}"


def ir_type(shape):
    """shape: tuple over the five integral types of tuples of domain-list lengths."""
    sub, names, doms = {}, {}, {}
    for typ, ds in zip(spec.ITG_TYPES, shape):
        sub[typ] = ListOf(Int(), len(ds))
        names[typ] = ListOf(Str(), len(ds))
        doms[typ] = Native(lambda ds=ds: [[Dom(i) for i in range(m)] for m in ds])
    return Rec(types.SimpleNamespace, subdomain_ids=DictOf(sub), integral_names=DictOf(names), integral_domains=DictOf(doms))


def shapes(max_total, max_dom):
    """All (n_t, domain sizes) with at most max_total integrals in total."""
    out = []
    for ns in itertools.product(range(max_total + 1), repeat=5):
        if sum(ns) > max_total or sum(ns) == 0:
            continue
        # domain-list sizes: all 1, or exactly one integral with max_dom kernels (each position)
        flat = [(t, i) for t, n in enumerate(ns) for i in range(n)]
        variants = [dict()]
        for pos in flat:
            variants.append({pos: max_dom})
        if len(flat) >= 2:
            variants.append({p: max_dom for p in flat})
        for var in variants:
            out.append(tuple(tuple(var.get((t, i), 1) for i in range(n)) for t, n in enumerate(ns)))
    return out


ENSURES = [
    "len(result.ids) == len(result.names) and len(result.names) == len(result.domains)"
    " and len(result.ids) == count_types_before(ir, 5)",
    "len(result.offsets) == 6 and result.offsets[0] == 0",
    "all([segment_nondecr(ir, result, t) for t in range(5)])",
    "all([segment_is_paired_permutation(ir, result, t) for t in range(5)])",
    # offsets delimit the kernels of each type: one kernel per (integral, domain) pair
    "all([result.offsets[t + 1] - result.offsets[t] == sumlen(ir.integral_domains[ITG_TYPES[t]]) for t in range(5)])",
]


def register(reg, tier="quick"):
    max_total = 3 if tier == "quick" else 4
    for sh in shapes(max_total, 2):
        tag = "|".join(",".join(map(str, s)) for s in sh)
        c = Contract(F + "integral_data", dict(ir=ir_type(sh)),
                     requires=["all([distinct(ir.integral_names[t]) for t in ITG_TYPES])",
                               # UFL: a subdomain id occurs once per integral type
                               "all([distinct(ir.subdomain_ids[t]) for t in ITG_TYPES])"],
                     ensures=ENSURES, properties=["C06", "C18"], modular=False,
                     name=f"integral_data[{tag}]", bounded=f"#integrals<={max_total}, #kernels per integral<=2",
                     mutants=[("id_sort = np.argsort(_ids)", "id_sort = list(range(len(_ids)))"),
                              ("names += [ir.integral_names[itg_type][i] for i in id_sort]",
                               "names += ir.integral_names[itg_type]")] if tag == "1,1||||" else [])
        reg.add(c)
    # the tuple literal the loop iterates is the ufcx_integral_type enum order
    reg.finite_checks = getattr(reg, "finite_checks", [])
