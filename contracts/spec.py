"""Spec functions: plain Python, executed natively on concrete values (replay, cross-check)
and interpreted symbolically by E1 (the same text both times)."""

import numbers

import ffcx.codegeneration.lnodes as L


def implies(a, b):
    return (not a) or b


def ev(e, env):
    """Value (over the reals) of an LNodes expression in environment `env`."""
    if isinstance(e, numbers.Number):
        return e
    if isinstance(e, L.LiteralFloat):
        return e.value
    if isinstance(e, L.LiteralInt):
        return e.value
    if isinstance(e, L.Symbol):
        return env.sym(e.name)
    if isinstance(e, L.MultiIndex):
        return ev(e.global_index, env)
    if isinstance(e, L.Neg):
        return -ev(e.arg, env)
    if isinstance(e, L.Add):
        return ev(e.lhs, env) + ev(e.rhs, env)
    if isinstance(e, L.Sub):
        return ev(e.lhs, env) - ev(e.rhs, env)
    if isinstance(e, L.Mul):
        return ev(e.lhs, env) * ev(e.rhs, env)
    if isinstance(e, L.Div):
        return env.div(ev(e.lhs, env), ev(e.rhs, env))
    if isinstance(e, L.Sum):
        acc = 0
        for a in e.args:
            acc = acc + ev(a, env)
        return acc
    if isinstance(e, L.Product):
        acc = 1
        for a in e.args:
            acc = acc * ev(a, env)
        return acc
    if isinstance(e, L.MathFunction):
        return env.fun(e.function, [ev(a, env) for a in e.args])
    if isinstance(e, L.ArrayAccess):
        return env.mem(e.array.name, [ev(i, env) for i in e.indices])
    if isinstance(e, L.Conditional):
        if evb(e.condition, env):
            return ev(e.true, env)
        return ev(e.false, env)
    if isinstance(e, (L.LT, L.LE, L.GT, L.GE, L.EQ, L.NE, L.And, L.Or, L.Not)):
        if evb(e, env):
            return 1
        return 0
    raise TypeError(f"ev: not a value expression: {type(e).__name__}")


def evb(e, env):
    """Truth value of an LNodes condition."""
    if isinstance(e, L.LT):
        return ev(e.lhs, env) < ev(e.rhs, env)
    if isinstance(e, L.LE):
        return ev(e.lhs, env) <= ev(e.rhs, env)
    if isinstance(e, L.GT):
        return ev(e.lhs, env) > ev(e.rhs, env)
    if isinstance(e, L.GE):
        return ev(e.lhs, env) >= ev(e.rhs, env)
    if isinstance(e, L.EQ):
        return ev(e.lhs, env) == ev(e.rhs, env)
    if isinstance(e, L.NE):
        return ev(e.lhs, env) != ev(e.rhs, env)
    if isinstance(e, L.And):
        return evb(e.lhs, env) and evb(e.rhs, env)
    if isinstance(e, L.Or):
        return evb(e.lhs, env) or evb(e.rhs, env)
    if isinstance(e, L.Not):
        return not evb(e.arg, env)
    return ev(e, env) != 0


def is_access(e, name, nidx):
    """e is an ArrayAccess of array `name` with nidx indices."""
    return isinstance(e, L.ArrayAccess) and e.array.name == name and len(e.indices) == nidx


def idx(e, k):
    return e.indices[k]


def flat(idx, sizes):
    """Row-major flattening of a multi-index."""
    acc = 0
    for i, n in zip(idx, sizes):
        acc = acc * n + i
    return acc


def prod(xs):
    acc = 1
    for x in xs:
        acc = acc * x
    return acc


# ---------------------------------------------------------------- C06: integral_data
ITG_TYPES = ("cell", "exterior_facet", "interior_facet", "vertex", "ridge")


def nondecr(xs):
    return all([a <= b for a, b in zip(xs, xs[1:])])


def distinct(xs):
    return all([xs[i] != xs[j] for i in range(len(xs)) for j in range(i + 1, len(xs))])


def distinct_pairs(xs, ys):
    return all([any([xs[i] != xs[j], ys[i] != ys[j]]) for i in range(len(xs)) for j in range(i + 1, len(xs))])


def count_types_before(ir, t):
    n = 0
    for s in ITG_TYPES[:t]:
        n = n + len(ir.subdomain_ids[s])
    return n


def sumlen(xs):
    n = 0
    for x in xs:
        n = n + len(x)
    return n


def _same_triple(ir, result, typ, pos, j):
    return all([result.ids[pos] == ir.subdomain_ids[typ][j], result.names[pos] == ir.integral_names[typ][j],
                result.domains[pos] is ir.integral_domains[typ][j]])


def segment_is_paired_permutation(ir, result, t):
    """Segment t of (ids, names, domains) is one permutation of the type's (id, name, domain) triples:
    every output triple is an input triple and every input triple occurs (names are distinct)."""
    typ = ITG_TYPES[t]
    base = count_types_before(ir, t)
    n = len(ir.subdomain_ids[typ])
    if len(result.ids) < base + n or len(result.names) < base + n or len(result.domains) < base + n:
        return False
    onto = all([any([_same_triple(ir, result, typ, base + k, j) for j in range(n)]) for k in range(n)])
    into = all([any([_same_triple(ir, result, typ, base + k, j) for k in range(n)]) for j in range(n)])
    return all([onto, into])


def segment_nondecr(ir, result, t):
    base = count_types_before(ir, t)
    n = len(ir.subdomain_ids[ITG_TYPES[t]])
    return nondecr(result.ids[base : base + n])


# ---------------------------------------------------------------- C20: option precedence
import ffcx.options as _O

DEFAULT_KEYS = list(_O.FFCX_DEFAULT_OPTIONS)
EXTRA = "some_unknown_key"


def present(key, priority, pwd, user):
    return (priority is not None and key in priority) or key in pwd or key in user


def expected_option(key, priority, pwd, user):
    if priority is not None and key in priority:
        return priority[key]
    if key in pwd:
        return pwd[key]
    if key in user:
        return user[key]
    return _O.FFCX_DEFAULT_OPTIONS[key][1]


def merged(result, key):
    return result[key]


# ---------------------------------------------------------------- C03: facet permutations (A-PERM: rotate first, then reflect)
def tri_rot(p):
    return [p[1], 1 - p[0] - p[1]]


def quad_rot(p):
    return [p[1], 1 - p[0]]


def refl2(p):
    return [p[1], p[0]]


def refl1(p):
    return [1 - p[0]]


def iterate(f, n, p):
    for _ in range(n):
        p = f(p)
    return p


def same_point(p, q):
    return len(p) == len(q) and all([a == b for a, b in zip(p, q)])


# ---------------------------------------------------------------- C11: per-integral metadata
def new_md(form_data, i):
    return form_data.integral_data[0].integrals[i].metadata()


# ---------------------------------------------------------------- C10: tensor-product quadrature
def multi_indices(sizes):
    out = [[]]
    for n in sizes:
        out = [q + [i] for q in out for i in range(n)]
    return out


def tensor_rule_ok(points, weights, factors):
    sizes = [len(f[1]) for f in factors]
    qs = multi_indices(sizes)
    if len(points) != len(qs) or len(weights) != len(qs):
        return False
    ok = []
    for q in qs:
        k = flat(q, sizes)
        ok.append(weights[k] == prod([factors[d][1][q[d]] for d in range(len(sizes))]))
        ok.append(all([points[k][d] == factors[d][0][q[d]][0] for d in range(len(sizes))]))
    return all(ok)


# ---------------------------------------------------------------- quantifiers / provenance (C06 unbounded contract)
def forall_k(n, f):
    """for all k in range(n): f(k).  Natively a loop; in E1 a fresh index under the range hypothesis."""
    return all([f(k) for k in range(n)])


def paired_gather(ir, result, t):
    """Segment t of ids/names/domains is the SAME permutation of the type's ids/names/domains."""
    return segment_is_paired_permutation(ir, result, t)


# ---------------------------------------------------------------- C16: formatter structure
def wrap(s, cond):
    if cond:
        return "(" + s + ")"
    return s


def one_of(x, alternatives):
    """x equals one of the alternatives (in E1: one of the equalities is VALID on the path, i.e. the choice depends
    on nothing but what the path fixed: the classes of parent and children)."""
    return any([x == a for a in alternatives])


def bools(n):
    out = [[]]
    for _ in range(n):
        out = [b + [x] for b in out for x in (False, True)]
    return out


def doc(x):
    from contracts.c_formatter import spec_doc

    return spec_doc(x)


# ---------------------------------------------------------------- definitions: accumulate loops
def loop_stmt(section):
    """The single statement inside the (innermost) dof loop of a definition section."""
    s = section.statements[0]
    while isinstance(s, L.ForRange):
        s = s.body.statements[0]
    return s.expr


def is_form_argument(t):
    import ufl

    return isinstance(t, ufl.classes.FormArgument)
