"""Exhaustive checks over finite domains read from the real code (counted as 'exhaustive')."""
from __future__ import annotations

import ast
import os
import re

from pyvc.interp import file_ast, find_def

REPO = os.environ.get("FFCX_REPO", "/repo")


def ufcx_integral_types():
    from runtime.descriptors import ufcx_enum

    txt = open(os.path.join(REPO, "ffcx/codegeneration/ufcx.h")).read()
    en = ufcx_enum(txt, "ufcx_integral_type")
    return en


def tuple_literals_of_types(path, qual):
    """String tuples iterated / assigned in a function that look like lists of integral types."""
    node = find_def(os.path.join(REPO, path), qual)
    out = []
    if node is None:
        return None
    for n in ast.walk(node):
        if isinstance(n, ast.Tuple) and n.elts and all(isinstance(e, ast.Constant) and isinstance(e.value, str) for e in n.elts):
            vals = tuple(e.value for e in n.elts)
            if "cell" in vals and "exterior_facet" in vals:
                out.append(vals)
    return out


def c06_enum_order(rep, tier, seed):
    """integral_data's type order and _compute_form_ir's keys are the ufcx_integral_type enum order."""
    en = ufcx_integral_types()
    if not en:
        rep.undecide("ufcx_integral_type enum", "anchor missing in ufcx.h")
        return
    want = tuple(n for n, v in sorted(en, key=lambda x: x[1]))
    ok_vals = [v for n, v in sorted(en, key=lambda x: x[1])] == list(range(len(en)))
    rep.ob("ufcx_integral_type enum values are 0..n-1", "proved" if ok_vals else "refuted", "exhaustive-finite", "exhaustive")
    for path, qual in (("ffcx/codegeneration/common.py", "integral_data"), ("ffcx/ir/representation.py", "_compute_form_ir")):
        lits = tuple_literals_of_types(path, qual)
        if not lits:
            rep.undecide(f"{qual}: integral type tuple", "anchor missing")
            continue
        for lit in lits:
            ok = lit == want
            name = f"{path}::{qual}: type tuple {lit} equals enum order {want}"
            if ok:
                rep.ob(name, "proved", "exhaustive-finite", "exhaustive", sample=dict(obligation=name))
            else:
                rep.violation(f"finite:{qual}:type-order", name, dict(obligation=name, got=lit, want=want,
                                                                     how="compare the tuple literal in the function with ufcx.h"))


def c06_no_everywhere_append(rep, tier, seed):
    """analysis._analyze_form passes do_append_everywhere_integrals=False to compute_form_data."""
    node = find_def(os.path.join(REPO, "ffcx/analysis.py"), "_analyze_form")
    if node is None:
        rep.undecide("_analyze_form", "anchor missing")
        return
    found = None
    for n in ast.walk(node):
        if isinstance(n, ast.Call) and ast.unparse(n.func).endswith("compute_form_data"):
            for k in n.keywords:
                if k.arg == "do_append_everywhere_integrals":
                    found = ast.unparse(k.value)
    name = "analysis._analyze_form: compute_form_data(..., do_append_everywhere_integrals=False)"
    if found == "False":
        rep.ob(name, "proved", "exhaustive-finite", "exhaustive")
    elif found is None:
        rep.violation("finite:_analyze_form:everywhere", name + " (keyword absent: UFL's default appends everywhere integrals)",
                      dict(obligation=name, got=None))
    else:
        rep.violation("finite:_analyze_form:everywhere", name, dict(obligation=name, got=found))
