"""Exhaustive checks over finite domains read from the real code (counted as 'exhaustive')."""
from __future__ import annotations

import ast
import os
import re

from pyvc.interp import file_ast, find_def

REPO = os.environ.get("FFCX_REPO", "/repo")


def ufcx_integral_types():
    from runtime.descriptors import ufcx_enum

    txt = open(os.path.join(REPO, "ffcx/codegeneration/ufcx.h")).read()
    en = ufcx_enum(txt, "ufcx_integral_type")
    return en


def tuple_literals_of_types(path, qual):
    """String tuples iterated / assigned in a function that look like lists of integral types."""
    node = find_def(os.path.join(REPO, path), qual)
    out = []
    if node is None:
        return None
    for n in ast.walk(node):
        if isinstance(n, ast.Tuple) and n.elts and all(isinstance(e, ast.Constant) and isinstance(e.value, str) for e in n.elts):
            vals = tuple(e.value for e in n.elts)
            if "cell" in vals and "exterior_facet" in vals:
                out.append(vals)
    return out


def c06_enum_order(rep, tier, seed):
    """integral_data's type order and _compute_form_ir's keys are the ufcx_integral_type enum order."""
    en = ufcx_integral_types()
    if not en:
        rep.undecide("ufcx_integral_type enum", "anchor missing in ufcx.h")
        return
    want = tuple(n for n, v in sorted(en, key=lambda x: x[1]))
    ok_vals = [v for n, v in sorted(en, key=lambda x: x[1])] == list(range(len(en)))
    rep.ob("ufcx_integral_type enum values are 0..n-1", "proved" if ok_vals else "refuted", "exhaustive-finite", "exhaustive")
    for path, qual in (("ffcx/codegeneration/common.py", "integral_data"), ("ffcx/ir/representation.py", "_compute_form_ir")):
        lits = tuple_literals_of_types(path, qual)
        if not lits:
            rep.undecide(f"{qual}: integral type tuple", "anchor missing")
            continue
        for lit in lits:
            ok = lit == want
            name = f"{path}::{qual}: type tuple {lit} equals enum order {want}"
            if ok:
                rep.ob(name, "proved", "exhaustive-finite", "exhaustive", sample=dict(obligation=name))
            else:
                rep.violation(f"finite:{qual}:type-order", name, dict(obligation=name, got=lit, want=want,
                                                                     how="compare the tuple literal in the function with ufcx.h"))


def c06_no_everywhere_append(rep, tier, seed):
    """analysis._analyze_form passes do_append_everywhere_integrals=False to compute_form_data."""
    node = find_def(os.path.join(REPO, "ffcx/analysis.py"), "_analyze_form")
    if node is None:
        rep.undecide("_analyze_form", "anchor missing")
        return
    found = None
    for n in ast.walk(node):
        if isinstance(n, ast.Call) and ast.unparse(n.func).endswith("compute_form_data"):
            for k in n.keywords:
                if k.arg == "do_append_everywhere_integrals":
                    found = ast.unparse(k.value)
    name = "analysis._analyze_form: compute_form_data(..., do_append_everywhere_integrals=False)"
    if found == "False":
        rep.ob(name, "proved", "exhaustive-finite", "exhaustive")
    elif found is None:
        rep.violation("finite:_analyze_form:everywhere", name + " (keyword absent: UFL's default appends everywhere integrals)",
                      dict(obligation=name, got=None))
    else:
        rep.violation("finite:_analyze_form:everywhere", name, dict(obligation=name, got=found))


def c20_cli_priority(rep, tier, seed):
    """main.main forwards an FFCx option to get_options as a priority option iff it was given on the
    command line (argparse external). Exhaustive over: every option x {absent, given with each choice /
    its default value / another value}, and all pairs of options."""
    import itertools
    import unittest.mock

    import ffcx.main as M
    from ffcx.options import FFCX_DEFAULT_OPTIONS

    def values(name):
        typ, default, _, choices = FFCX_DEFAULT_OPTIONS[name]
        if isinstance(default, bool):
            return [True]
        if choices:
            return list(choices)
        if typ is float:
            return [default, 0.5, 0.0]  # 0.0 / 0: falsy values given explicitly are still given
        if typ is int:
            return [default, 10, 0]
        return [default, "numba"] if name == "language" else [default]

    def run(given):
        argv = []
        for k, v in given.items():
            argv += [f"--{k}"] if isinstance(FFCX_DEFAULT_OPTIONS[k][1], bool) else [f"--{k}", str(v)]
        captured = {}

        def fake_get_options(priority_options=None):
            captured["p"] = priority_options
            return {k: v[1] for k, v in FFCX_DEFAULT_OPTIONS.items()}

        with unittest.mock.patch.object(M, "get_options", fake_get_options):
            rc = M.main(argv)
        return argv, captured.get("p"), rc

    names = list(FFCX_DEFAULT_OPTIONS)
    cases = [dict()]
    for n in names:
        for v in values(n):
            cases.append({n: v})
    for a, b in itertools.combinations(names, 2):
        cases.append({a: values(a)[0], b: values(b)[-1]})
        cases.append({a: values(a)[-1], b: values(b)[0]})
    n_ok = 0
    for given in cases:
        try:
            argv, prio, rc = run(given)
        except SystemExit as e:
            rep.undecide(f"cli {given}", f"argparse exited {e}")
            continue
        prio = prio or {}
        for k in names:
            name = f"cli argv={argv}: option {k} is a priority option iff given"
            if k in given:
                ok = k in prio and prio[k] == given[k]
            else:
                ok = k not in prio
            if ok:
                n_ok += 1
                rep.ob(name, "proved", "exhaustive-finite", "exhaustive", sample=dict(argv=argv, priority=str(prio)) if n_ok == 3 else None)
            else:
                kind = "given-but-dropped" if k in given else "absent-but-forwarded"
                rep.violation(f"cli:{k}:{kind}", f"ffcx {' '.join(argv)}: priority options {prio}: {k} {kind}; an "
                              "ffcx_options.json value is then " + ("not overridden by the command line" if k in given else "overridden by a flag that was not given"),
                              dict(obligation=name, argv=argv, priority=str(prio), how_to_replay="ffcx.main.main(argv) with get_options patched to capture its argument"))


def c20_main_named_objects(rep, tier, seed):
    """ffcx.main.main on UFL files (written to a temporary directory): every named form and expression of the file is
    declared in <stem>.h and defined in <stem>.c under its form_<stem>_<name> / expression_<stem>_<name> alias, including
    forms that are structurally equal to another form of the file, a form listed twice under two names, and unnamed
    position-indexed forms.  Exhaustive over the listed files (finite)."""
    import re
    import tempfile

    import ffcx.main as M

    files = {
        "equalforms": """
import basix.ufl
from ufl import Coefficient, FunctionSpace, Mesh, TestFunction, TrialFunction, dx, grad, inner
mesh = Mesh(basix.ufl.element("Lagrange", "triangle", 1, shape=(2,)))
V = FunctionSpace(mesh, basix.ufl.element("Lagrange", "triangle", 1))
u, v, f = TrialFunction(V), TestFunction(V), Coefficient(V)
a = inner(grad(u), grad(v)) * dx
P = inner(grad(u), grad(v)) * dx
L = f * v * dx
M = f * dx
forms = [a, L, P, M]
""",
        "defaults": """
import basix.ufl
import numpy as np
from ufl import Coefficient, FunctionSpace, Mesh, TestFunction, TrialFunction, dx, grad, inner
mesh = Mesh(basix.ufl.element("Lagrange", "interval", 1, shape=(1,)))
V = FunctionSpace(mesh, basix.ufl.element("Lagrange", "interval", 2))
u, v, f = TrialFunction(V), TestFunction(V), Coefficient(V)
a = u * v * dx
L = f * v * dx
e1 = grad(f)
expressions = [(e1, np.array([[0.25], [0.5]]))]
""",
    }
    expect = {"equalforms": (["a", "L", "P", "M"], []), "defaults": (["a", "L"], ["e1"])}
    outstem = {"equalforms": None, "defaults": "generated_code"}  # -o changes the file names only; the prefix stays the UFL file stem
    with tempfile.TemporaryDirectory() as d:
        for stem, text in files.items():
            path = os.path.join(d, stem + ".py")
            with open(path, "w") as fh:
                fh.write(text)
            name = f"ffcx {stem}.py: every named object is declared in the header and defined in the source under its alias"
            try:
                o = outstem[stem]
                rc = M.main(["-i", path, "-d", d] + (["-o", o] if o else []))
                hdr = open(os.path.join(d, (o or stem) + ".h")).read()
                src = open(os.path.join(d, (o or stem) + ".c")).read()
            except Exception as e:  # noqa: BLE001
                rep.violation(f"main:{stem}", name + f" fails: {type(e).__name__}: {e}", dict(obligation=name, file=text))
                continue
            forms, exprs = expect[stem]
            missing = []
            for n in forms:
                alias = f"form_{stem}_{n}"
                if not re.search(rf"extern\s+ufcx_form\s*\*\s*{alias}\s*;", hdr) or not re.search(rf"ufcx_form\s*\*\s*{alias}\s*=\s*&\s*\w+\s*;", src):
                    missing.append(alias)
            for n in exprs:
                alias = f"expression_{stem}_{n}"
                if not re.search(rf"extern\s+ufcx_expression\s*\*\s*{alias}\s*;", hdr) or not re.search(rf"ufcx_expression\s*\*\s*{alias}\s*=\s*&\s*\w+\s*;", src):
                    missing.append(alias)
            if rc == 0 and not missing:
                rep.ob(name, "proved", "exhaustive-finite", "exhaustive")
            else:
                rep.violation(f"main:{stem}", name + f" fails: exit {rc}, missing aliases {missing}",
                              dict(obligation=name, missing=missing, file=text, how_to_replay="ffcx.main.main([file, '-d', dir]) on the file text in this replay"))


def c20_multi_file_run(rep, tier, seed):
    """One ffcx run over several UFL files gives, for every file, the same header and source as a run on that file alone
    with the same command-line options (the options dict built once by main is not changed by an earlier file), and
    compile_ufl_objects leaves its `options` argument unchanged.  Exhaustive over the listed file orders x options (finite)."""
    import itertools
    import tempfile

    import ufl.algorithms

    import ffcx.main as M
    from ffcx.compiler import compile_ufl_objects
    from ffcx.options import get_options

    texts = {
        "first": """
import basix.ufl
import numpy as np
from ufl import Coefficient, FunctionSpace, Mesh, TestFunction, TrialFunction, dx, grad
mesh = Mesh(basix.ufl.element("Lagrange", "triangle", 1, shape=(2,)))
V = FunctionSpace(mesh, basix.ufl.element("Lagrange", "triangle", 1))
f = Coefficient(V)
L = f * TestFunction(V) * dx
expressions = [(grad(f), np.array([[0.25, 0.25]]))]
""",
        "second": """
import basix
import basix.ufl
from ufl import FunctionSpace, Mesh, TestFunction, TrialFunction, dx, grad, inner
ct = basix.CellType.quadrilateral
el = basix.ufl.wrap_element(basix.create_tp_element(basix.ElementFamily.P, ct, 2, basix.LagrangeVariant.gll_warped))
mesh = Mesh(basix.ufl.blocked_element(basix.ufl.wrap_element(basix.create_tp_element(basix.ElementFamily.P, ct, 1, basix.LagrangeVariant.gll_warped)), shape=(2,)))
V = FunctionSpace(mesh, el)
u, v = TrialFunction(V), TestFunction(V)
a = inner(grad(u), grad(v)) * dx + u * v * dx
""",
    }
    optsets = [["--part", "diagonal"], ["--sum_factorization"], ["--scalar_type", "float32", "--table_atol", "1e-7"]]

    def read(path):
        # comments are dropped: the header comment echoes the command line (output directory, list of input files)
        return "\n".join(line for line in open(path).read().splitlines() if not line.lstrip().startswith("//"))
    with tempfile.TemporaryDirectory() as d:
        paths = {}
        for stem, text in texts.items():
            paths[stem] = os.path.join(d, stem + ".py")
            with open(paths[stem], "w") as fh:
                fh.write(text)
        for opts in optsets:
            alone = {}
            for stem in texts:
                od = os.path.join(d, "alone_" + stem + "_" + "".join(c for c in "".join(opts) if c.isalnum()))
                os.makedirs(od, exist_ok=True)
                M.main([paths[stem], "-d", od] + opts)
                alone[stem] = (read(os.path.join(od, stem + ".h")), read(os.path.join(od, stem + ".c")))
            for order in itertools.permutations(list(texts)):
                od = os.path.join(d, "multi_" + "_".join(order) + "_" + "".join(c for c in "".join(opts) if c.isalnum()))
                os.makedirs(od, exist_ok=True)
                name = f"ffcx {' '.join(s + '.py' for s in order)} {' '.join(opts)}: every file's output equals the output of a run on that file alone"
                try:
                    M.main([paths[s] for s in order] + ["-d", od] + opts)
                    diff = [s for s in order if (read(os.path.join(od, s + ".h")), read(os.path.join(od, s + ".c"))) != alone[s]]
                except Exception as e:  # noqa: BLE001
                    diff = [f"{type(e).__name__}: {e}"]
                if not diff:
                    rep.ob(name, "proved", "exhaustive-finite", "exhaustive")
                else:
                    rep.violation(f"main:multi:{'_'.join(order)}:{opts[0]}", name + f" fails for {diff}", dict(obligation=name, differing=diff, files=texts, options=opts,
                                  how_to_replay="ffcx.main.main([files..., '-d', dir] + options) vs one run per file"))
        # purity of the options argument
        for stem in texts:
            for o in ({"part": "diagonal"}, {"sum_factorization": True}):
                ufd = ufl.algorithms.load_ufl_file(paths[stem])
                options = get_options(dict(o))
                before = dict(options)
                compile_ufl_objects(ufd.forms + ufd.expressions + ufd.elements, options=options, object_names=ufd.object_names, namespace=stem)
                name = f"compile_ufl_objects({stem}.py, {o}) leaves its options argument unchanged"
                if options == before:
                    rep.ob(name, "proved", "exhaustive-finite", "exhaustive")
                else:
                    ch = {k: (before.get(k), options.get(k)) for k in set(before) | set(options) if before.get(k) != options.get(k)}
                    rep.violation(f"main:options-mutated:{stem}:{list(o)[0]}", name + f" fails: {ch}", dict(obligation=name, changed={k: [str(a), str(b)] for k, (a, b) in ch.items()}))


def c20_same_entry(rep, tier, seed):
    """The CLI and the JIT both generate code through compiler.compile_ufl_objects with the merged options."""
    import ast

    for path, qual, callee in (("ffcx/main.py", "main", "compiler.compile_ufl_objects"),
                               ("ffcx/codegeneration/jit.py", "_compile_objects", "ffcx.compiler.compile_ufl_objects")):
        node = find_def(os.path.join(REPO, path), qual)
        if node is None:
            rep.undecide(f"{qual}", "anchor missing")
            continue
        calls = [n for n in ast.walk(node) if isinstance(n, ast.Call) and ast.unparse(n.func) == callee]
        name = f"{path}::{qual} generates code through {callee} with options=options"
        ok = len(calls) == 1 and any(k.arg == "options" and ast.unparse(k.value) == "options" for k in calls[0].keywords)
        if ok:
            rep.ob(name, "proved", "exhaustive-finite", "exhaustive")
        else:
            rep.violation(f"finite:{qual}:entry", name, dict(obligation=name, calls=[ast.unparse(c) for c in calls]))


def c20_sanitise(rep, tier, seed):
    """sanitise_filename yields a C identifier fragment: exhaustive over all single code points < 0x3000 in three
    contexts, sampled strings otherwise (bounded)."""
    import ast
    import pathlib
    import random
    import re
    import string

    node = find_def(os.path.join(REPO, "ffcx/main.py"), "main.sanitise_filename")
    if node is None:
        rep.undecide("sanitise_filename", "anchor missing")
        return
    ns = dict(pathlib=pathlib, re=re, string=string)
    exec(compile(ast.Module([node], []), "sanitise_filename", "exec"), ns)  # noqa: S102 - the real source text
    f = ns["sanitise_filename"]
    ok_re = re.compile(r"[A-Za-z0-9_]*\Z")
    bad = []
    n = 0
    for cp in range(1, 0x3000):
        ch = chr(cp)
        for s in (ch, f"a{ch}b.py", f"dir/{ch}{ch}.ufl"):
            n += 1
            if not ok_re.match(f(s)):
                bad.append(s)
    rnd = random.Random(seed)
    for _ in range(3000):
        s = "".join(chr(rnd.choice([rnd.randint(32, 126), rnd.randint(128, 0x2FFF)])) for _ in range(rnd.randint(0, 12)))
        n += 1
        if not ok_re.match(f(s)):
            bad.append(s)
    name = "sanitise_filename(name) matches [A-Za-z0-9_]*"
    if bad:
        rep.violation("sanitise:" + repr(bad[0]), f"{name} fails for {bad[0]!r} -> {f(bad[0])!r}", dict(obligation=name, inputs=bad[:5]))
    else:
        rep.ob(f"{name} ({n} inputs)", "proved", "runtime-contract", "bounded")


def c03_group_lemmas(rep, tier, seed):
    """Facts about the permutation maps used by the contracts, over all points (z3, reals):
    R_tri^3 = R_quad^4 = F^2 = id, each map sends the reference facet onto itself, the 2/6/8 maps are pairwise different."""
    import itertools
    import time

    import z3

    from contracts import spec

    x, y = z3.Reals("x y")

    def valid(name, goal):
        s = z3.Solver()
        s.set("timeout", 10000)
        s.add(z3.Not(goal))
        t0 = time.time()
        r = s.check()
        if r == z3.unsat:
            rep.ob(f"lemma: {name}", "proved", "z3", "proved", time.time() - t0)
        elif r == z3.sat:
            rep.violation(f"lemma:{name}", f"permutation lemma fails: {name}", dict(obligation=name, model=str(s.model())))
        else:
            rep.undecide(f"lemma: {name}", "solver unknown")

    def eq(p, q):
        return z3.And(*[a == b for a, b in zip(p, q)])

    p = [x, y]
    valid("tri_rot^3 = id", eq(spec.iterate(spec.tri_rot, 3, p), p))
    valid("quad_rot^4 = id", eq(spec.iterate(spec.quad_rot, 4, p), p))
    valid("refl2^2 = id", eq(spec.iterate(spec.refl2, 2, p), p))
    valid("refl1^2 = id", eq(spec.iterate(spec.refl1, 2, [x]), [x]))
    in_tri = lambda q: z3.And(q[0] >= 0, q[1] >= 0, q[0] + q[1] <= 1)  # noqa: E731
    in_quad = lambda q: z3.And(q[0] >= 0, q[1] >= 0, q[0] <= 1, q[1] <= 1)  # noqa: E731
    valid("tri_rot maps the reference triangle into itself", z3.Implies(in_tri(p), in_tri(spec.tri_rot(p))))
    valid("refl2 maps the reference triangle into itself", z3.Implies(in_tri(p), in_tri(spec.refl2(p))))
    valid("quad_rot maps the reference square into itself", z3.Implies(in_quad(p), in_quad(spec.quad_rot(p))))
    valid("refl2 maps the reference square into itself", z3.Implies(in_quad(p), in_quad(spec.refl2(p))))
    valid("refl1 maps [0,1] into itself", z3.Implies(z3.And(x >= 0, x <= 1), z3.And(1 - x >= 0, 1 - x <= 1)))
    for name, rot, nrot in (("triangle", spec.tri_rot, 3), ("quadrilateral", spec.quad_rot, 4)):
        maps = [(r, f) for r in range(nrot) for f in range(2)]
        for (r1, f1), (r2, f2) in itertools.combinations(maps, 2):
            a = spec.iterate(spec.refl2, f1, spec.iterate(rot, r1, p))
            b = spec.iterate(spec.refl2, f2, spec.iterate(rot, r2, p))
            s = z3.Solver()
            s.add(z3.Not(eq(a, b)))
            ok = s.check() == z3.sat
            rep.ob(f"lemma: {name} permutations (rot={r1},ref={f1}) and (rot={r2},ref={f2}) differ", "proved" if ok else "refuted",
                   "z3", "proved")


def c03_stacking(rep, tier, seed):
    """build_optimized_tables stacks the permuted tables with index 2*rot + ref, i.e. code N <-> (N div 2 rotations, N mod 2
    reflections) as ufcx.h documents: loop nest order, ranges and argument positions are read from the AST."""
    import ast

    path = os.path.join(REPO, "ffcx/ir/elementtables.py")
    node = find_def(path, "build_optimized_tables")
    if node is None:
        rep.undecide("build_optimized_tables", "anchor missing")
        return
    want = {"permute_quadrature_triangle": (3, 2), "permute_quadrature_quadrilateral": (4, 2), "permute_quadrature_interval": (None, 2)}
    seen = {}
    for outer in ast.walk(node):
        if not isinstance(outer, ast.For):
            continue
        for call in ast.walk(outer):
            if isinstance(call, ast.Call) and isinstance(call.func, ast.Name) and call.func.id in want:
                # enclosing loops of this call, innermost last
                chain = []

                def find(n, acc):
                    if n is call:
                        chain.extend(acc)
                        return True
                    for ch in ast.iter_child_nodes(n):
                        if find(ch, acc + ([n] if isinstance(n, ast.For) else [])):
                            return True
                    return False

                find(outer, [])
                loops = [(ast.unparse(f.target), ast.unparse(f.iter)) for f in chain]
                key = (call.func.id, call.lineno)
                if key in seen and len(seen[key][0]) >= len(loops):
                    continue
                seen[key] = (loops, [ast.unparse(a) for a in call.args])
    if not seen:
        rep.undecide("build_optimized_tables: permutation loops", "anchor missing")
        return
    for (fn, line), (loops, args) in sorted(seen.items()):
        nrot, nref = want[fn]
        name = f"elementtables.py:{line}: {fn} tables stacked as index 2*rot+ref over rot<{nrot}, ref<{nref}"
        if nrot is None:
            ok = len(loops) >= 1 and loops[-1] == (args[1], "range(2)")
        else:
            ok = (len(loops) >= 2 and loops[-2][1] == f"range({nrot})" and loops[-1][1] == f"range({nref})"
                  and args[1] == loops[-1][0] and args[2] == loops[-2][0])
        if ok:
            rep.ob(name, "proved", "exhaustive-finite", "exhaustive")
        else:
            rep.violation(f"finite:stacking:{fn}", name + f" fails: loops {loops}, call args {args}", dict(obligation=name, loops=loops, args=args))


# ------------------------------------------------------------------------------------------ C09
C99_BASE = {  # UFL handler name -> (real C99 base name, complex C99 base name or None)
    "sqrt": ("sqrt", "csqrt"), "abs": ("fabs", "cabs"), "cos": ("cos", "ccos"), "sin": ("sin", "csin"), "tan": ("tan", "ctan"),
    "acos": ("acos", "cacos"), "asin": ("asin", "casin"), "atan": ("atan", "catan"), "cosh": ("cosh", "ccosh"),
    "sinh": ("sinh", "csinh"), "tanh": ("tanh", "ctanh"), "power": ("pow", "cpow"), "exp": ("exp", "cexp"),
    "ln": ("log", "clog"), "erf": ("erf", None), "atan2": ("atan2", None), "min_value": ("fmin", None),
    "max_value": ("fmax", None), "bessel_j": ("jn", None), "bessel_y": ("yn", None),
    "real": (None, "creal"), "imag": (None, "cimag"), "conj": (None, "conj"),
}


def emitted_function_names():
    """Names LNodes can put into a MathFunction: handler names of the UFL classes routed to _math_function."""
    import ffcx.codegeneration.lnodes as L

    return sorted({k._ufl_handler_name_ for k, v in L._ufl_call_lookup.items() if v is L._math_function
                   and hasattr(k, "_ufl_handler_name_") and k._ufl_handler_name_ != "math_function"})


def c09_tables(rep, tier, seed):
    """dtype maps and math-function names, exhaustive over {4 scalar types} x {emittable functions} x {REAL, SCALAR argument},
    executed on the real formatter; oracle: the C99 naming scheme."""
    import numpy as np

    import ffcx.codegeneration.lnodes as L
    from ffcx.codegeneration.C.formatter import Formatter
    from ffcx.codegeneration.utils import dtype_to_c_type, dtype_to_scalar_dtype

    want_c = {"float32": "float", "float64": "double", "complex64": "float _Complex", "complex128": "double _Complex"}
    want_r = {"float32": "float32", "float64": "float64", "complex64": "float32", "complex128": "float64"}
    for st in want_c:
        for arg in (st, np.dtype(st), getattr(np, st)):
            n1 = f"dtype_to_c_type({arg!r}) == {want_c[st]!r}"
            ok = dtype_to_c_type(arg) == want_c[st]
            (rep.ob(n1, "proved", "exhaustive-finite", "exhaustive") if ok else
             rep.violation(f"finite:dtype_to_c_type:{st}", n1 + f" got {dtype_to_c_type(arg)!r}", dict(obligation=n1)))
            n2 = f"dtype_to_scalar_dtype({arg!r}) == {want_r[st]}"
            ok = np.dtype(dtype_to_scalar_dtype(arg)).name == want_r[st]
            (rep.ob(n2, "proved", "exhaustive-finite", "exhaustive") if ok else
             rep.violation(f"finite:dtype_to_scalar_dtype:{st}", n2, dict(obligation=n2)))
    names = emitted_function_names()
    unknown = [n for n in names if n not in C99_BASE]
    for n in unknown:
        rep.undecide(f"math function {n}", "no C99 oracle entry for this UFL handler name")
    for st in want_c:
        fmt = Formatter(st)
        is_complex = st.startswith("complex")
        single = st in ("float32", "complex64")
        # the REAL / SCALAR / INT / BOOL -> C type-name map
        for dt, want in ((L.DataType.SCALAR, want_c[st]), (L.DataType.REAL, want_c[want_r[st]]), (L.DataType.INT, "int"),
                         (L.DataType.BOOL, "bool")):
            nm = f"Formatter({st})._dtype_to_name({dt.name}) == {want!r}"
            got = fmt._dtype_to_name(dt)
            (rep.ob(nm, "proved", "exhaustive-finite", "exhaustive") if got == want else
             rep.violation(f"finite:_dtype_to_name:{st}:{dt.name}", nm + f" got {got!r}", dict(obligation=nm)))
        for fn in names:
            if fn not in C99_BASE:
                continue
            rbase, cbase = C99_BASE[fn]
            for argdt in (L.DataType.REAL, L.DataType.SCALAR):
                arg_complex = is_complex and argdt == L.DataType.SCALAR
                base = cbase if arg_complex else rbase
                if base is None:
                    continue  # real-only function of a complex argument: rejected by UFL (assumption) / simplified by _math_function
                nargs = 2 if fn in ("power", "atan2", "min_value", "max_value", "bessel_j", "bessel_y") else 1
                args = [L.Symbol(f"a{i}", argdt) for i in range(nargs)]
                text = fmt(L.MathFunction(fn, args))
                emitted = text.split("(", 1)[0]
                allowed = {base + "f", base} if single else {base}
                if fn in ("bessel_j", "bessel_y"):
                    allowed = {base}  # POSIX jn/yn (double); jnf/ynf are not ISO C
                if fn == "conj" and single:
                    allowed = {"conjf", "conj"}
                nm = f"Formatter({st}): {fn}({argdt.name} argument) is emitted as one of {sorted(allowed)}"
                if emitted in allowed:
                    rep.ob(nm, "proved", "exhaustive-finite", "exhaustive", sample=dict(obligation=nm, text=text) if fn == "sqrt" and st == "complex64" else None)
                else:
                    rep.violation(f"finite:math:{st}:{fn}:{argdt.name}", nm + f"; got {emitted!r} in {text!r}",
                                  dict(obligation=nm, text=text, how_to_replay=f"Formatter({st!r})(L.MathFunction({fn!r}, [Symbol of dtype {argdt.name}]))"))
        # two-argument functions with arguments of different types: a complex (SCALAR) FIRST argument needs the complex
        # function whatever the type of the second (f**2.5, f**n); a real-typed first argument with a complex second one is
        # not reachable (UFL does not terminate on non-literal exponents in complex mode) and is not checked
        if is_complex:
            for fn in ("power",):
                rbase, cbase = C99_BASE[fn]
                for second, what in ((L.Symbol("e", L.DataType.REAL), "REAL symbol"), (L.LiteralFloat(2.5), "float literal"), (L.LiteralInt(3), "integer literal"),
                                     (L.Symbol("n", L.DataType.INT), "INT symbol")):
                    text = fmt(L.MathFunction(fn, [L.Symbol("a0", L.DataType.SCALAR), second]))
                    emitted = text.split("(", 1)[0]
                    allowed = {cbase + "f", cbase} if single else {cbase}
                    nm = f"Formatter({st}): {fn}(SCALAR, {what}) is emitted as one of {sorted(allowed)}"
                    if emitted in allowed:
                        rep.ob(nm, "proved", "exhaustive-finite", "exhaustive")
                    else:
                        rep.violation(f"finite:math:{st}:{fn}:SCALAR,{what}", nm + f"; got {emitted!r} in {text!r}",
                                      dict(obligation=nm, text=text, how_to_replay=f"Formatter({st!r})(L.MathFunction({fn!r}, [SCALAR symbol, {what}]))"))
        # literals: complex literal is (re+I*im), real literal is a plain number
        t = fmt(L.LiteralFloat(1.5 - 2.25j))
        nm = f"Formatter({st}): complex literal printed as (re+I*im)"
        (rep.ob(nm, "proved", "exhaustive-finite", "exhaustive") if t.replace(" ", "") in ("(1.5+I*-2.25)",) else
         rep.violation(f"finite:complex-literal:{st}", nm + f" got {t!r}", dict(obligation=nm)))


def c09_complex_switch(rep, tier, seed):
    """analysis: complex_mode and remove_complex_nodes depend on issubdtype(scalar_type, complexfloating) and nothing else."""
    import ast

    path = os.path.join(REPO, "ffcx/analysis.py")
    for qual, pattern in (("_analyze_form", "complex_mode"), ("_analyze_expression", "remove_complex_nodes")):
        node = find_def(path, qual)
        if node is None:
            rep.undecide(qual, "anchor missing")
            continue
        src = ast.unparse(node)
        if pattern == "complex_mode":
            assigns = [n for n in ast.walk(node) if isinstance(n, ast.Assign) and any(isinstance(t, ast.Name) and t.id == "complex_mode" for t in n.targets)]
            ok = (len(assigns) == 1 and ast.unparse(assigns[0].value) == "np.issubdtype(scalar_type, np.complexfloating)"
                  and "complex_mode=complex_mode" in src)
            name = "analysis._analyze_form: complex_mode = issubdtype(scalar_type, complexfloating), passed to compute_form_data"
        else:
            ifs = [n for n in ast.walk(node) if isinstance(n, ast.If) and "remove_complex_nodes" in ast.unparse(n)]
            ok = len(ifs) == 1 and ast.unparse(ifs[0].test) == "not np.issubdtype(scalar_type, np.complexfloating)"
            name = "analysis._analyze_expression: remove_complex_nodes iff scalar type is not complex"
        (rep.ob(name, "proved", "exhaustive-finite", "exhaustive") if ok else
         rep.violation(f"finite:{qual}:complex-switch", name, dict(obligation=name)))
    # forms: the same switch for forms (remove_complex_nodes is applied by UFL through complex_mode)


# ------------------------------------------------------------------------------------------ C12
C12_MODULES = ["ffcx/analysis.py", "ffcx/compiler.py", "ffcx/formatting.py", "ffcx/naming.py", "ffcx/options.py",
               "ffcx/element_interface.py", "ffcx/ir/representation.py", "ffcx/ir/representationutils.py", "ffcx/ir/integral.py",
               "ffcx/ir/elementtables.py", "ffcx/ir/analysis/factorization.py", "ffcx/ir/analysis/graph.py",
               "ffcx/ir/analysis/indexing.py", "ffcx/ir/analysis/modified_terminals.py", "ffcx/ir/analysis/reconstruct.py",
               "ffcx/ir/analysis/valuenumbering.py", "ffcx/codegeneration/access.py", "ffcx/codegeneration/backend.py",
               "ffcx/codegeneration/codegeneration.py", "ffcx/codegeneration/common.py", "ffcx/codegeneration/definitions.py",
               "ffcx/codegeneration/expression_generator.py", "ffcx/codegeneration/geometry.py",
               "ffcx/codegeneration/integral_generator.py", "ffcx/codegeneration/lnodes.py", "ffcx/codegeneration/optimizer.py",
               "ffcx/codegeneration/symbols.py", "ffcx/codegeneration/utils.py", "ffcx/codegeneration/C/expression.py",
               "ffcx/codegeneration/C/file.py", "ffcx/codegeneration/C/form.py", "ffcx/codegeneration/C/formatter.py",
               "ffcx/codegeneration/C/integral.py", "ffcx/codegeneration/numba/expression.py", "ffcx/codegeneration/numba/file.py",
               "ffcx/codegeneration/numba/form.py", "ffcx/codegeneration/numba/formatter.py", "ffcx/codegeneration/numba/integral.py"]

# (module, enclosing function, source text of the site) -> why the site cannot influence the generated text
C12_DISCHARGED = {
    ("ffcx/ir/representation.py", "_group_integrands_by_quadrature_rule", "set(facet_types)"): "only len() of the set is used",
    ("ffcx/ir/representation.py", "_group_integrands_by_quadrature_rule", "set(ridge_types)"): "only len() of the set is used",
    ("ffcx/ir/representation.py", "compute_ir", "set((j[0] for j in i.expression.integrand.keys()))"):
        "set of basix.CellType: nanobind enum hashes are the integer values (process independent); consumers iterate a handful of ints",
    ("ffcx/codegeneration/codegeneration.py", "generate_code", "set((i[0] for i in integral_ir.expression.integrand.keys()))"):
        "set of basix.CellType (integer hashes, process independent)",
    ("ffcx/ir/integral.py", "_compute_integral_ir", "set()"): "_argkeys of ints / active_table_names: only membership, union, and sorted() consumers",
    ("ffcx/ir/integral.py", "_compute_integral_ir", "set(w)"): "set of ints merged into _argkeys (ints hash to themselves)",
    ("ffcx/ir/analysis/indexing.py", "map_indexed_arg_components", "set(d1)"): "only len() of the set is used",
    ("ffcx/ir/analysis/indexing.py", "map_component_tensor_arg_components", "set(d2)"): "only len() of the set is used",
    ("ffcx/ir/analysis/graph.py", "_count_nodes_with_unique_post_traversal", "set()"): "'handled' is used for membership only",
    ("ffcx/ir/analysis/factorization.py", "handle_sum", "set(fac0)"): "argument keys (tuples of ints) wrapped in sorted()",
    ("ffcx/ir/analysis/factorization.py", "handle_sum", "set(fac1)"): "argument keys (tuples of ints) wrapped in sorted()",
    ("ffcx/ir/analysis/factorization.py", "handle_conditional", "set(fac1.keys())"): "wrapped in sorted()",
    ("ffcx/ir/analysis/factorization.py", "handle_conditional", "set(fac2.keys())"): "wrapped in sorted()",
    ("ffcx/codegeneration/common.py", "template_keys", "set((fname for _, fname, _, _ in string.Formatter().parse(template) if fname))"):
        "used in an equality assertion only",
    ("ffcx/codegeneration/access.py", "cell_vertices", "set(coordinate_element.sub_elements)"): "unpacked as a singleton",
    ("ffcx/codegeneration/access.py", "cell_edge_vectors", "set(coordinate_element.sub_elements)"): "unpacked as a singleton",
    ("ffcx/codegeneration/access.py", "facet_edge_vectors", "set(coordinate_element.sub_elements)"): "unpacked as a singleton",
    ("ffcx/codegeneration/C/form.py", "generator", "set(d.keys())"): "equality assertion only",
    ("ffcx/codegeneration/C/expression.py", "generator", "set(d.keys())"): "equality assertion only",
    ("ffcx/codegeneration/numba/file.py", "generator", "set(d.keys())"): "equality assertion only",
    ("ffcx/codegeneration/numba/form.py", "generator", "set(d.keys())"): "equality assertion only",
    ("ffcx/codegeneration/numba/expression.py", "generator", "set(d.keys())"): "equality assertion only",
    ("ffcx/codegeneration/numba/integral.py", "generator", "set(d.keys())"): "equality assertion only",
    ("ffcx/codegeneration/expression_generator.py", "__init__", "set()"): "_ufl_names: collected, never iterated into the text",
    ("ffcx/codegeneration/integral_generator.py", "__init__", "set()"): "_ufl_names: collected, never iterated into the text",
    ("ffcx/codegeneration/expression_generator.py", "generate_geometry_tables", "set()"): "cell names; iterated through sorted()",
    ("ffcx/codegeneration/integral_generator.py", "generate_geometry_tables", "set()"): "cell names; iterated through sorted()",
    ("ffcx/analysis.py", "analyze_ufl_objects", "set(coordinate_elements)"): "wrapped in sorted(key=repr)",
    ("ffcx/codegeneration/lnodes.py", "__hash__", "hash(self.value)"): "__hash__ implementations are not iterated into text",
    ("ffcx/codegeneration/lnodes.py", "__hash__", "hash(self.name)"): "__hash__ implementation",
    ("ffcx/codegeneration/lnodes.py", "__hash__", "hash(self.global_index.__repr__)"): "__hash__ implementation",
    ("ffcx/codegeneration/lnodes.py", "__hash__", "hash(self.lhs)"): "__hash__ implementation",
    ("ffcx/codegeneration/lnodes.py", "__hash__", "hash(self.rhs)"): "__hash__ implementation",
    ("ffcx/codegeneration/lnodes.py", "__hash__", "hash(tuple(self.args))"): "__hash__ implementation",
    ("ffcx/codegeneration/lnodes.py", "__hash__", "hash(self.array)"): "__hash__ implementation",
    ("ffcx/codegeneration/lnodes.py", "__hash__", "hash(self.expr)"): "__hash__ implementation",
    ("ffcx/codegeneration/lnodes.py", "__hash__", "hash(tuple(self.statements))"): "__hash__ implementation",
    ("ffcx/codegeneration/lnodes.py", "__hash__", "hash(self.symbol)"): "__hash__ implementation",
    ("ffcx/codegeneration/lnodes.py", "__hash__", "hash(self.as_tuple())"): "__hash__ implementation",
    ("ffcx/ir/representation.py", "_compute_form_ir", "id(obj)"): "key of a lookup in object_names (names given in the UFL file); the id never reaches the text",
    ("ffcx/ir/representation.py", "_compute_form_ir", "id(form_data.original_form)"): "key of a lookup in object_names only",
    ("ffcx/ir/representation.py", "_compute_expression_ir", "id(obj)"): "key of a lookup in object_names only",
    ("ffcx/ir/representation.py", "_compute_expression_ir", "id(original_expr)"): "key of a lookup in object_names only",
    ("ffcx/ir/analysis/factorization.py", "<module>", "noargs = {}"): "shared empty-dict sentinel, compared and read but never mutated",
    ("ffcx/ir/analysis/graph.py", "rebuild_with_scalar_subexpressions", "set()"): "'handled' is used for membership only",
    ("ffcx/ir/analysis/indexing.py", "map_indexed_arg_components", "i.count()"): "UFL index count used to find a position in the free-index list of the same expression",
    ("ffcx/ir/analysis/indexing.py", "map_component_tensor_arg_components", "mi[k].count()"): "position lookup of a UFL index within the same expression",
    ("ffcx/ir/analysis/reconstruct.py", "handle_index_sum", "mi[0].count()"): "position lookup of a UFL index within the same expression",
    ("ffcx/ir/representationutils.py", "__hash__", "hash"): "__hash__ implementation (sha1 of the points)",
}


def c12_sites(tree_root=None):
    """All syntactic sources of seed-/history-dependence in the code-generation modules:
    set()/frozenset() constructions and set displays/comprehensions, id(), hash(), .ufl_id(), .count(),
    and module-level mutable state (counters, caches) that functions use."""
    import ast

    root = tree_root or REPO
    sites = []
    for rel in C12_MODULES:
        path = os.path.join(root, rel)
        if not os.path.exists(path):
            sites.append((rel, "<module>", "<file missing>", "missing"))
            continue
        txt, tree = file_ast(path)
        # module-level mutable state
        for st in tree.body:
            if isinstance(st, ast.Assign | ast.AnnAssign) and st.value is not None:
                v = st.value
                src = ast.unparse(v)
                if (isinstance(v, ast.Call) and ast.unparse(v.func) in ("itertools.count", "count", "collections.defaultdict", "defaultdict",
                                                                        "dict", "list", "set")) or (
                        isinstance(v, ast.List | ast.Set) or (isinstance(v, ast.Dict) and not v.keys)):
                    names = [ast.unparse(t) for t in (st.targets if isinstance(st, ast.Assign) else [st.target])]
                    sites.append((rel, "<module>", f"{', '.join(names)} = {src}"[:120], "module-state"))

        def visit(node, fname):
            for ch in ast.iter_child_nodes(node):
                f2 = ch.name if isinstance(ch, ast.FunctionDef) else fname
                if isinstance(ch, ast.Call):
                    fn = ast.unparse(ch.func)
                    if fn in ("set", "frozenset") or fn in ("id", "hash") or fn.endswith(".ufl_id") or fn.endswith(".count") and not ch.args:
                        sites.append((rel, fname, ast.unparse(ch)[:160], "call"))
                if isinstance(ch, ast.Set | ast.SetComp):
                    sites.append((rel, fname, ast.unparse(ch)[:160], "set-display"))
                if isinstance(ch, ast.Attribute) and ch.attr == "__hash__" and not isinstance(node, ast.Call):
                    pass
                visit(ch, f2)

        visit(tree, "<module>")
    return sites


def c12_site_obligations(rep, tier, seed):
    """Every syntactic source of nondeterminism is discharged by a recorded reason; an unknown site is undecided
    (the replay below decides whether it shows in the text)."""
    sites = c12_sites()
    new = []
    for rel, fname, src, kind in sites:
        reason = C12_DISCHARGED.get((rel, fname, src))
        if reason is None and kind == "call" and fname == "__hash__":
            reason = "__hash__ implementation"
        name = f"{rel}::{fname}: `{src}` cannot order or name anything in the generated text"
        if reason is not None:
            rep.ob(name + f" [{reason}]", "proved", "syntactic-rule", "exhaustive", sample=dict(site=f"{rel}::{fname}", source=src, reason=reason)
                   if len(rep.samples) < 2 else None)
        else:
            new.append((rel, fname, src, kind))
    rep.extra["c12_sites_total"] = len(sites)
    rep.extra["c12_sites_new"] = [f"{a}::{b}: {c}" for a, b, c, _ in new]
    return new


def c12_replay(rep, tier, seed, new_sites=()):
    """Bounded second half: regenerate corpus modules in fresh processes with other hash seeds / histories."""
    from concurrent.futures import ThreadPoolExecutor

    from kernelvc import corpus as C
    from runtime.determinism import first_diff, generate

    if tier == "quick":
        jobs = [("demo/HyperElasticity.py", {}), ("demo/FacetIntegrals.py", {}), ("demo/CellGeometry.py", {}),
                ("corpus/tp_sumfact.py", {"sum_factorization": True}), ("corpus/mixed_enriched_symmetric.py", {}),
                ("corpus/vertex_ridge.py", {}), ("corpus/expressions.py", {}), ("corpus/subdomains.py", {}),
                ("corpus/macro_iso.py", {}), ("corpus/complex_ops.py", {"scalar_type": "complex128"}), ("corpus/two_meshes.py", {})]
        variants = [(1 + seed % 5, 0), (0, 2), (0, 3)]
    else:
        # excluded: a form whose UFL signature itself depends on the digits of the mesh ids (see the corpus file's docstring)
        jobs = [j for j in C.demo_files() + C.corpus_files() if j[0] != "corpus/two_meshes_shared_symbol.py"]
        variants = [(1, 0), (2 + seed % 7, 0), (0, 1), (0, 2), (0, 3)]

    def one(j):
        rel, opts = j
        try:
            base = generate(rel, opts, 0, 0)
            out = []
            for s, h in variants:
                g = generate(rel, opts, s, h)
                out.append((s, h, g[0] == base[0], None if g[0] == base[0] else first_diff(base[1], g[1])))
            return rel, opts, out, None
        except Exception as e:  # noqa: BLE001
            return rel, opts, [], str(e)[-600:]

    differs = False
    with ThreadPoolExecutor(8) as ex:
        for rel, opts, out, err in ex.map(one, jobs):
            if err:
                rep.error(f"determinism replay {rel}", err)
                continue
            for s, h, same, diff in out:
                name = f"regenerating {rel} {opts} with PYTHONHASHSEED={s}, history={h} gives byte-identical text"
                if same:
                    rep.ob(name, "proved", "runtime-contract", "bounded")
                else:
                    differs = True
                    rep.violation(f"determinism:{rel}:{'seed' if h == 0 else 'history'}", name + f": first difference at line {diff[0]}: {diff[1]!r} vs {diff[2]!r}",
                                  dict(obligation=name, first_difference=diff,
                                       how_to_replay=f"runtime/determinism.py generate({rel!r}, {opts!r}, seed, history) for (0,0) and ({s},{h})"))
    if new_sites and not differs:
        for rel, fname, src, kind in new_sites:
            rep.undecide(f"{rel}::{fname}: `{src}`", "new source of seed-/history-dependence not covered by a discharge rule; "
                         "the replay over the corpus did not show a difference")


# ------------------------------------------------------------------------------------------ C13
def c13_option_signature(rep, tier, seed):
    """jit._compute_option_signature separates every pair of option settings that select different code and ignores the
    insertion order: exhaustive over the finite-choice options x a grid of numeric values, on the real function."""
    import itertools

    import numpy as np

    import ffcx.codegeneration.jit as J
    from ffcx.options import FFCX_DEFAULT_OPTIONS, get_options

    base = {k: v[1] for k, v in FFCX_DEFAULT_OPTIONS.items()}
    grid = {
        "scalar_type": ["float32", "float64", "complex64", "complex128"],
        "part": ["full", "diagonal"],
        "sum_factorization": [False, True],
        "language": ["C", "numba"],
        "table_rtol": [1e-6, 1e-5],
        "table_atol": [1e-9, 1e-8],
        "epsilon": [1e-14, 1e-12],
    }
    keys = list(grid)
    settings = []
    for combo in itertools.product(*[grid[k] for k in keys]):
        d = dict(base)
        d.update(dict(zip(keys, combo)))
        settings.append(d)
    sigs = {}
    n = 0
    for d in settings:
        s = J._compute_option_signature(d)
        key = tuple(d[k] for k in keys)
        if s in sigs and sigs[s] != key:
            a, b = sigs[s], key
            diff = [k for k, x, y in zip(keys, a, b) if x != y]
            rep.violation(f"optsig:collision:{','.join(diff)}", f"_compute_option_signature gives the same signature for options differing in {diff}: {dict(zip(keys, a))} vs {dict(zip(keys, b))}",
                          dict(obligation="option signature is injective on code-selecting options", a=dict(zip(keys, a)), b=dict(zip(keys, b)),
                               how_to_replay="ffcx.codegeneration.jit._compute_option_signature on the two dicts"))
            continue
        sigs[s] = key
        n += 1
    rep.ob(f"_compute_option_signature is injective on {len(settings)} settings of the code-selecting options "
           f"({' x '.join(str(len(grid[k])) for k in keys)})", "proved" if n == len(settings) else "refuted", "exhaustive-finite", "exhaustive")
    # insertion order
    d = settings[7]
    rev = dict(reversed(list(d.items())))
    ok = J._compute_option_signature(d) == J._compute_option_signature(rev)
    (rep.ob("_compute_option_signature ignores the insertion order of the options", "proved", "exhaustive-finite", "exhaustive") if ok else
     rep.violation("optsig:order", "_compute_option_signature depends on the insertion order of the options", dict(a=str(d), b=str(rev))))
    # equivalent spellings of the scalar type may share a module, different kernels may not: np.dtype / type spellings
    for st in grid["scalar_type"]:
        for other in grid["scalar_type"]:
            if st == other:
                continue
            a = J._compute_option_signature(dict(base, scalar_type=np.dtype(st)))
            b = J._compute_option_signature(dict(base, scalar_type=np.dtype(other)))
            nm = f"option signatures of scalar_type=np.dtype({st}) and np.dtype({other}) differ"
            (rep.ob(nm, "proved", "exhaustive-finite", "exhaustive") if a != b else
             rep.violation(f"optsig:collision:scalar_type:{st}:{other}", nm + " fails", dict(a=st, b=other)))
    # compilation inputs
    sig = J._compilation_signature
    cases = [([], False), ([], True), (["-O2"], False), (["-O3"], False), (["-O2", "-g"], False), (["-O2 -g"], False)]
    seen = {}
    for args, dbg in cases:
        s = sig(args, dbg)
        nm = f"_compilation_signature({args}, {dbg}) is unique among the sampled compile inputs"
        if s in seen:
            rep.violation(f"compsig:{args}:{dbg}", nm + f" fails: equals that of {seen[s]}", dict(a=str((args, dbg)), b=str(seen[s])))
        else:
            seen[s] = (args, dbg)
            rep.ob(nm, "proved", "runtime-contract", "bounded")


def c13_signature_across_configs(rep, tier, seed):
    """The option signature is a function of the RESOLVED option values only, in every process: processes whose
    ffcx_options.json files differ (none / user file / $PWD file) give equal signatures for equal resolved options and
    different signatures for different ones.  Exhaustive over the listed environments x option values (finite)."""
    import json
    import subprocess
    import sys
    import tempfile

    child = r"""
import sys, json
sys.path.insert(0, %(repo)r)
import ffcx.codegeneration.jit as J
from ffcx.options import get_options
out = {}
for st in ("float32", "float64", "complex128"):
    for part in ("full", "diagonal"):
        out[f"{st},{part}"] = J._compute_option_signature(get_options({"scalar_type": st, "part": part}))
out["resolved-defaults"] = J._compute_option_signature(get_options())
out["resolved-scalar_type"] = str(get_options()["scalar_type"])
print(json.dumps(out))
"""
    res = {}
    with tempfile.TemporaryDirectory() as d:
        envs = {"no-config": {}, "user-config-float32": {"scalar_type": "float32"}, "user-config-diagonal": {"part": "diagonal"}}
        for name, cfg in envs.items():
            xdg = os.path.join(d, name, "xdg")
            cwd = os.path.join(d, name, "cwd")
            os.makedirs(os.path.join(xdg, "ffcx"))
            os.makedirs(cwd)
            if cfg:
                with open(os.path.join(xdg, "ffcx", "ffcx_options.json"), "w") as fh:
                    json.dump(cfg, fh)
            r = subprocess.run([sys.executable, "-c", child % dict(repo=REPO)], capture_output=True, text=True, cwd=cwd, timeout=300,
                               env=dict(os.environ, XDG_CONFIG_HOME=xdg, HOME=os.path.join(d, name)))
            if r.returncode != 0:
                rep.error("c13 signature across configs", r.stderr[-600:])
                return
            res[name] = json.loads(r.stdout.strip().splitlines()[-1])
    base = res["no-config"]
    if res["user-config-float32"]["resolved-scalar_type"] != "float32":
        rep.undecide("option signature across config files", "the user config file was not picked up (XDG_CONFIG_HOME)")
        return
    bad = []
    for name, r in res.items():
        for k in base:
            if k.startswith("resolved"):
                continue
            if r[k] != base[k]:
                bad.append(f"{name}: signature of explicitly given {k} differs from the process without config files")
    if res["user-config-float32"]["resolved-defaults"] != base["float32,full"]:
        bad.append("config file scalar_type=float32: the signature of the resolved options is not the signature of scalar_type=float32")
    if res["user-config-float32"]["resolved-defaults"] == base["resolved-defaults"]:
        bad.append("config file scalar_type=float32 and no config file (float64) give the same signature")
    if res["user-config-diagonal"]["resolved-defaults"] != base["float64,diagonal"] or res["user-config-diagonal"]["resolved-defaults"] == base["resolved-defaults"]:
        bad.append("config file part=diagonal: the signature does not reflect the resolved value")
    name = "option signature depends on the resolved option values only, across processes with different ffcx_options.json files (3 environments x 6 settings)"
    if not bad:
        rep.ob(name, "proved", "exhaustive-finite", "exhaustive")
    else:
        rep.violation("optsig:config", name + f" fails: {bad[0]}", dict(obligation=name, failures=bad, signatures=res,
                                                                       how_to_replay="checks/finite.py::c13_signature_across_configs child script under XDG_CONFIG_HOME with the listed files"))


def c13_compute_signature(rep, tier, seed):
    """naming.compute_signature separates requests that differ in integrand, points, kind or tag (bounded pairs, real function),
    and the generated names are C identifiers."""
    import re

    import basix.ufl
    import numpy as np
    import ufl

    from ffcx import naming

    mesh = ufl.Mesh(basix.ufl.element("Lagrange", "triangle", 1, shape=(2,)))
    V = ufl.FunctionSpace(mesh, basix.ufl.element("Lagrange", "triangle", 1))
    u, v, f = ufl.TrialFunction(V), ufl.TestFunction(V), ufl.Coefficient(V)
    forms = [u * v * ufl.dx, ufl.inner(ufl.grad(u), ufl.grad(v)) * ufl.dx, f * u * v * ufl.dx, u * v * ufl.ds, u * v * ufl.dx(1),
             2.0 * u * v * ufl.dx, u * v * ufl.dx(degree=3)]
    sigs = {}
    for i, fm in enumerate(forms):
        s = naming.compute_signature([fm], "tag")
        nm = f"compute_signature separates form #{i} from the other sampled forms"
        if s in sigs:
            rep.violation(f"sig:forms:{sigs[s]}:{i}", nm + f": equals that of form #{sigs[s]}", dict(a=str(forms[sigs[s]]), b=str(fm)))
        else:
            sigs[s] = i
            rep.ob(nm, "proved", "runtime-contract", "bounded")
    for a, b in (("tag", "tag2"), ("('v', 'cell', 0, (1,))", "('v', 'cell', 0, (2,))")):
        ok = naming.compute_signature([forms[0]], a) != naming.compute_signature([forms[0]], b)
        nm = f"compute_signature separates tags {a!r} / {b!r}"
        (rep.ob(nm, "proved", "runtime-contract", "bounded") if ok else rep.violation(f"sig:tag:{a}", nm + " fails", dict(a=a, b=b)))
    # evaluation points: every perturbation that changes the kernel changes the name
    e = ufl.grad(f)
    rng = np.random.default_rng(seed)
    base = np.array([[0.125, 0.25], [0.5, 0.25], [0.1, 0.7]])
    big = rng.random((600, 2)) * 0.5  # > 1000 entries: numpy's repr elides the middle
    cases = [("1e-10 perturbation of one coordinate", base, base + np.array([[0, 0], [1e-10, 0], [0, 0]])),
             ("relative 1e-13 perturbation", base, base * (1 + 1e-13)),
             ("one interior point of a 600-point set moved by 0.1", big, np.where(np.arange(1200).reshape(600, 2) == 601, big + 0.1, big)),
             ("points in another order", base, base[::-1].copy()),
             ("one point more", base, np.vstack([base, [[0.3, 0.3]]])),
             # memory layout: a Fortran-ordered array and the C-ordered array with the same BUFFER are different point sets
             ("Fortran-ordered array vs the C-ordered array with the same buffer", np.asfortranarray(base),
              np.ascontiguousarray(np.asfortranarray(base).ravel(order="K").reshape(base.shape)))]
    for what, p, q in cases:
        sa = naming.compute_signature([(e, p)], "t")
        sb = naming.compute_signature([(e, q)], "t")
        nm = f"compute_signature separates expressions evaluated at different points ({what})"
        if sa != sb:
            rep.ob(nm, "proved", "runtime-contract", "bounded")
        else:
            rep.violation(f"sig:points:{what}", nm + " fails: both requests get the same module name",
                          dict(obligation=nm, points_a=repr(p[:3]), points_b=repr(q[:3]), max_abs_difference=float(np.max(np.abs(p - q))) if p.shape == q.shape else None,
                               how_to_replay="ffcx.naming.compute_signature([(expr, points)], tag) for both point sets"))
    same = naming.compute_signature([(e, base)], "t") == naming.compute_signature([(e, base.copy())], "t")
    # ... and the same point set gets the same name whatever its memory layout (C order, Fortran order, a strided view)
    wide = np.zeros((3, 4))
    wide[:, ::2] = base
    layouts = [np.asfortranarray(base), wide[:, ::2], np.array(base.tolist())]
    same = same and all(naming.compute_signature([(e, q)], "t") == naming.compute_signature([(e, base)], "t") for q in layouts)
    (rep.ob("compute_signature is a function of the point values (equal arrays, equal name)", "proved", "runtime-contract", "bounded") if same else
     rep.violation("sig:points:unstable", "equal point sets (copy, Fortran order, strided view) give different signatures", {}))
    ident = re.compile(r"[A-Za-z_][A-Za-z0-9_]*\Z")
    names = [naming.form_name(forms[0], 0, "pre"), naming.integral_name(forms[0], "cell", 0, (1, 2), "pre"),
             naming.integral_name(forms[0], "cell", 0, "otherwise", "pre"), naming.expression_name((e, base), "pre")]
    for n_ in names:
        ok = bool(ident.match(n_)) and bool(re.match(r"(form|integral|expression)_[0-9a-f]{40}\Z", n_))
        (rep.ob(f"generated name {n_[:14]}... is a C identifier of the form kind_<40 hex digits>", "proved", "runtime-contract", "bounded") if ok else
         rep.violation(f"name:{n_[:12]}", f"{n_!r} is not a valid generated identifier", dict(name=n_)))
    ok = len({naming.integral_name(forms[0], t, i, s, "p") for t in ("cell", "exterior_facet") for i in (0, 1) for s in ((1,), (2,), "otherwise")}) == 12
    (rep.ob("integral_name separates integral type, form index and subdomain id", "proved", "runtime-contract", "bounded") if ok else
     rep.violation("name:integral-tag", "integral_name collides across (type, form id, subdomain id)", {}))


def c13_module_names_distinct(rep, tier, seed):
    """Within one module all generated object names are distinct valid C identifiers (every corpus module)."""
    import re

    from checks.e3desc import run_all

    ident = re.compile(r"[A-Za-z_][A-Za-z0-9_]*\Z")
    for f in run_all(tier):
        if "error" in f or "names" not in f:
            continue
        names = f["names"]
        ok = len(names) == len(set(names)) and all(ident.match(n) for n in names)
        nm = f"{f['file']}: {len(names)} object names are distinct C identifiers"
        (rep.ob(nm, "proved", "runtime-contract", "bounded") if ok else rep.violation(f"names:{f['file']}", nm + " fails", dict(names=names[:10])))


# ------------------------------------------------------------------------------------------ C19
def c19_rule_ids(rep, tier, seed):
    """QuadratureRule.id is injective on the rules that can meet in one kernel: all rules of one cell type from
    cell x degree 0..30 x scheme x polyset (and the vertex scheme). Exhaustive on the real functions."""
    import basix
    import numpy as np

    from ffcx.element_interface import create_quadrature, reference_cell_vertices
    from ffcx.ir.representationutils import QuadratureRule

    cells = ["interval", "triangle", "tetrahedron", "quadrilateral", "hexahedron", "prism"]
    schemes = ["default", "GLL", "Gauss-Jacobi", "Xiao-Gimbutas"]
    total = 0
    for cell in cells:
        rules = {}  # id -> (points bytes, label)
        labels = {}
        for scheme in schemes:
            for degree in range(0, 31):
                try:
                    pts, wts = create_quadrature(cell, degree, scheme, [])
                except Exception:  # noqa: BLE001 - scheme not available for this cell/degree
                    continue
                r = QuadratureRule(np.asarray(pts), np.asarray(wts))
                hash(r)
                key = r.points.tobytes()
                labels.setdefault(key, f"{scheme} degree {degree}")
                rid = r.id()
                rules.setdefault(rid, set()).add(key)
        # vertex scheme: the cell's vertices
        v = reference_cell_vertices(cell)
        r = QuadratureRule(v, np.ones(len(v)) / len(v))
        hash(r)
        labels.setdefault(r.points.tobytes(), "vertex scheme")
        rules.setdefault(r.id(), set()).add(r.points.tobytes())
        n_rules = sum(len(v) for v in rules.values())
        total += n_rules
        coll = {rid: sorted(labels[k] for k in ks) for rid, ks in rules.items() if len(ks) > 1}
        name = f"QuadratureRule.id is injective on the {n_rules} distinct rules of cell type {cell}"
        if not coll:
            rep.ob(name, "proved", "exhaustive-finite", "exhaustive", sample=dict(obligation=name))
        else:
            for rid, labs in sorted(coll.items()):
                rep.violation(f"ruleid:{cell}:{'|'.join(labs)}", f"{name} fails: rules {labs} share the id {rid!r} "
                              f"(weights_{rid}, FE*_Q{rid}, sv_{rid}, sp_{rid} would be declared twice in one kernel)",
                              dict(obligation=name, cell=cell, rules=labs, id=rid,
                                   how_to_replay=f"u*v*dx over {cell} with the two rules in one subdomain; compile the generated C"))
    rep.extra["quadrature_rules_enumerated"] = total
    # ids are identifier fragments
    import re

    r = QuadratureRule(np.asarray([[0.25, 0.25]]), np.asarray([0.5]))
    hash(r)
    ok = bool(re.match(r"[0-9a-f]+\Z", r.id()))
    (rep.ob("QuadratureRule.id consists of hex digits", "proved", "exhaustive-finite", "exhaustive") if ok else
     rep.violation("ruleid:charset", f"id {r.id()!r} is not a hex string", {}))


# ------------------------------------------------------------------------------------------ C10
def c10_clamp(rep, tier, seed):
    """clamp_table_small_numbers changes an entry by at most atol + rtol*|n| and only to one of `numbers` (bounded: random tables)."""
    import numpy as np

    from ffcx.ir.elementtables import clamp_table_small_numbers

    rng = np.random.default_rng(seed)
    bad = 0
    n = 0
    for rtol, atol in ((1e-6, 1e-9), (1e-3, 1e-4), (0.0, 1e-12)):
        for _ in range(60):
            t = rng.choice([-1.0, 0.0, 1.0, 0.5, 2.0], size=(2, 3, 4)) + rng.normal(scale=rng.choice([1e-12, 1e-8, 1e-5, 1e-2]), size=(2, 3, 4))
            orig = t.copy()
            out = clamp_table_small_numbers(t.copy(), rtol=rtol, atol=atol)
            changed = out != orig
            n += 1
            for x, y in zip(orig[changed], out[changed]):
                if y not in (-1.0, 0.0, 1.0) or abs(x - y) > atol + rtol * abs(y) + 1e-18:
                    bad += 1
            if np.any(np.abs(out - orig) > atol + rtol * 1.0 + 1e-18):
                bad += 1
    name = f"clamp_table_small_numbers: entries move by at most atol + rtol*|n| and only onto -1, 0, 1 ({n} random tables)"
    (rep.ob(name, "proved", "runtime-contract", "bounded") if bad == 0 else
     rep.violation("clamp:tolerance", name + " fails", dict(obligation=name, bad=bad)))


def c10_sumfact_scope(rep, tier, seed):
    """use_sum_factorization requires a cell integral (AST)."""
    import ast

    node = find_def(os.path.join(REPO, "ffcx/ir/representation.py"), "_group_integrands_by_quadrature_rule")
    if node is None:
        rep.undecide("_group_integrands_by_quadrature_rule", "anchor missing")
        return
    assigns = [n for n in ast.walk(node) if isinstance(n, ast.Assign) and ast.unparse(n.targets[0]) == "use_sum_factorization"]
    name = "representation: use_sum_factorization = sum_factorization and integral_type == 'cell'"
    ok = len(assigns) == 1 and ast.unparse(assigns[0].value) == "sum_factorization and integral_type == 'cell'"
    (rep.ob(name, "proved", "exhaustive-finite", "exhaustive") if ok else rep.violation("finite:sumfact-scope", name, dict(got=[ast.unparse(a) for a in assigns])))


def c10_inapplicable_options(rep, tier, seed):
    """'Options that do not apply to an integral have no effect on it' (C10), on the real pipeline: for each listed
    (form, integral, option) where the option does not apply, the LNodes kernel generated with the option is the same
    text as without it.  Exhaustive over the listed cases (finite); an exception counts as an effect."""
    import basix
    import basix.ufl
    import numpy as np
    import ufl

    from ffcx.analysis import analyze_ufl_objects
    from ffcx.codegeneration.backend import FFCXBackend
    from ffcx.codegeneration.C.formatter import Formatter
    from ffcx.codegeneration.integral_generator import IntegralGenerator
    from ffcx.ir.representation import compute_ir
    from ffcx.options import get_options

    def kernels(form, opts):
        options = get_options(dict(opts))
        analysis = analyze_ufl_objects([form], options["scalar_type"])
        ir = compute_ir(analysis, {}, "v", options, False)
        out = {}
        fmt = Formatter(options["scalar_type"])
        for iir, itg in zip(ir.integrals, analysis.form_data[0].integral_data):
            for dom in sorted({k[0] for k in iir.expression.integrand}, key=lambda c: c.name):
                prog = IntegralGenerator(iir, FFCXBackend(iir, options)).generate(dom)
                out[(itg.integral_type, str(itg.subdomain_id), dom.name)] = fmt(prog)
        return out

    def lag(cell, deg, shape=None):
        return basix.ufl.element("Lagrange", cell, deg, shape=shape) if shape else basix.ufl.element("Lagrange", cell, deg)

    def tp(ct, deg, shape=None):
        e = basix.ufl.wrap_element(basix.create_tp_element(basix.ElementFamily.P, ct, deg, basix.LagrangeVariant.gll_warped))
        return basix.ufl.blocked_element(e, shape=shape) if shape else e

    cases = []
    # sum factorisation: applies to cell integrals on quadrilateral/hexahedron cells with tensor-product elements only
    m = ufl.Mesh(tp(basix.CellType.quadrilateral, 1, (2,)))
    V = ufl.FunctionSpace(m, tp(basix.CellType.quadrilateral, 2))
    u, v = ufl.TrialFunction(V), ufl.TestFunction(V)
    cases.append(("sum_factorization:exterior_facet:quadrilateral", ufl.inner(ufl.grad(u), ufl.grad(v)) * ufl.dx + u * v * ufl.ds, dict(sum_factorization=True),
                  lambda k: k[0] == "exterior_facet"))
    cases.append(("sum_factorization:interior_facet+vertex:quadrilateral", u * v * ufl.dx + ufl.jump(u) * ufl.jump(v) * ufl.dS + u * v * ufl.dP, dict(sum_factorization=True),
                  lambda k: k[0] != "cell"))
    m = ufl.Mesh(lag("triangle", 1, (2,)))
    V = ufl.FunctionSpace(m, lag("triangle", 2))
    u, v = ufl.TrialFunction(V), ufl.TestFunction(V)
    cases.append(("sum_factorization:cell:triangle", u * v * ufl.dx, dict(sum_factorization=True), lambda k: True))
    cases.append(("sum_factorization:exterior_facet:triangle", u * v * ufl.ds, dict(sum_factorization=True), lambda k: True))
    # (hexahedron/quadrilateral cell integrals whose elements have no tensor-product factorisation still get the
    #  tensor-product rule: the option applies there, and E3 metamorphic compares the tensors on corpus/tp_mixed_elements.py)
    m = ufl.Mesh(lag("hexahedron", 1, (3,)))
    V = ufl.FunctionSpace(m, lag("hexahedron", 2))
    u, v = ufl.TrialFunction(V), ufl.TestFunction(V)
    cases.append(("sum_factorization:exterior_facet:hexahedron", u * v * ufl.ds, dict(sum_factorization=True), lambda k: True))
    # part=diagonal applies to bilinear forms only
    f = ufl.Coefficient(V)
    cases.append(("part=diagonal:linear-form", f * v * ufl.dx + v * ufl.ds, dict(part="diagonal"), lambda k: True))
    cases.append(("part=diagonal:functional", f * f * ufl.dx, dict(part="diagonal"), lambda k: True))
    for key, form, opts, select in cases:
        name = f"option {opts} does not apply to {key.split(':', 1)[1]}: the generated kernels are the same text as without it"
        try:
            base = kernels(form, {})
        except Exception as e:  # noqa: BLE001
            rep.undecide(name, f"baseline does not compile: {type(e).__name__}: {e}")
            continue
        try:
            got = kernels(form, opts)
            diff = [k for k in base if select(k) and got.get(k) != base[k]]
            effect = f"kernels {diff} differ" if diff else None
        except Exception as e:  # noqa: BLE001
            effect = f"{type(e).__name__}: {str(e)[:120]}"
        if effect is None:
            rep.ob(name, "proved", "exhaustive-finite", "exhaustive")
        else:
            rep.violation(f"inapplicable-option:{key}", name + f" fails: {effect}",
                          dict(obligation=name, case=key, options=opts, effect=effect, how_to_replay="checks/finite.py::c10_inapplicable_options builds the form named by the key"))


# ------------------------------------------------------------------------------------------ C07
def c07_licm_storage(rep, tier, seed):
    """optimizer.licm on synthetic two-level loop nests of many sizes: the hoisted arrays are declared inside the
    section, are automatic (no 'static' in the real C formatter's text) and non-const, and A is still only updated by +=.
    Bounded over the loop sizes listed; the sizes include very large ones so that size thresholds are crossed."""
    import ffcx.codegeneration.lnodes as L
    from ffcx.codegeneration.C.formatter import Formatter
    from ffcx.codegeneration.optimizer import licm

    fmt = Formatter("float64")
    sizes = [1, 2, 3, 8, 31, 32, 33, 63, 64, 65, 127, 128, 129, 255, 256, 257, 1000, 1024, 1025, 4096, 65537, 10 ** 6]
    for n in sizes:
        for m in (3, n):
            i, j = L.Symbol("i", L.DataType.INT), L.Symbol("j", L.DataType.INT)
            A = L.Symbol("A", L.DataType.SCALAR)
            fw = L.Symbol("fw0", L.DataType.SCALAR)
            T1, T2 = L.Symbol("FE1", L.DataType.REAL), L.Symbol("FE2", L.DataType.REAL)
            body = L.AssignAdd(A[L.Sum([L.Product([L.LiteralInt(m), i]), j])], L.Product([fw, T1[i], T2[j]]))
            nest = L.ForRange(i, 0, n, [L.ForRange(j, 0, m, [body])])
            sec = L.Section("Tensor Computation", [nest], [], [fw, T1, T2], [A], [L.Annotation.licm])
            out = licm(sec, None)
            text = fmt(out)
            name = f"licm(outer={n}, inner={m}): hoisted arrays are automatic storage in the section"
            bad = [ln for ln in text.splitlines() if "static" in ln and "static const" not in ln]
            decls = [s for s in out.statements if isinstance(s, L.ArrayDecl)]
            ok = not bad and all(not d.const for d in decls) and len(decls) >= 1 and "temp_0" in text and " = " not in [ln for ln in text.splitlines() if "A[" in ln and "+=" not in ln and "temp" not in ln][:1]
            if ok:
                rep.ob(name, "proved", "runtime-contract", "bounded")
            else:
                rep.violation(f"licm:storage:{'static' if bad else 'shape'}", name + f" fails: {bad[:1] or 'no hoisted array'}",
                              dict(obligation=name, text=text[:600], how_to_replay="checks/finite.py::c07_licm_storage builds the section; optimizer.licm; C Formatter"))
                return


# ------------------------------------------------------------------------------------------ C02
def c02_geometry_access(rep, tier, seed):
    """access.cell_vertices / cell_edge_vectors / facet_edge_vectors read coordinate_dofs[restriction][node][3]:
    exhaustive over cell types x geometric dimension x vertex/edge x component x restriction, on the real functions,
    against the UFCx layout computed from basix' reference topology."""
    import basix
    import basix.ufl
    import ufl

    import ffcx.codegeneration.lnodes as L
    from contracts import spec
    from ffcx.codegeneration.access import FFCXBackendAccess
    from ffcx.codegeneration.symbols import FFCXBackendSymbols
    from ffcx.ir.analysis.modified_terminals import analyse_modified_terminal
    from pyvc.models import NativeEnv

    class Env(NativeEnv):
        def memi(self, name, idxs):
            return 1 + sum(int(i) for i in idxs) % 3  # some vertex number read from the *_facet_edge_vertices table

        def mem(self, name, idxs):
            return self.memi(name, idxs)

    env = Env()
    cells = [("interval", 1), ("interval", 2), ("triangle", 2), ("triangle", 3), ("quadrilateral", 2), ("quadrilateral", 3),
             ("tetrahedron", 3), ("hexahedron", 3)]
    n = 0
    for cellname, gdim in cells:
        mesh = ufl.Mesh(basix.ufl.element("Lagrange", cellname, 1, shape=(gdim,)))
        ct = getattr(basix.CellType, cellname)
        topo = basix.topology(ct)
        nverts = len(topo[0])
        symbols = FFCXBackendSymbols({}, {}, {})
        acc = FFCXBackendAccess("facet", "interior_facet", symbols, {})

        def index_of(e):
            assert isinstance(e, L.ArrayAccess) and e.array.name == "coordinate_dofs" and len(e.indices) == 1, repr(e)
            return spec.ev(e.indices[0], env)

        for r in (None, "+", "-"):
            off = 3 * nverts if r == "-" else 0

            def restricted(e, r=r):
                return e(r) if r else e

            for comp in range(gdim):
                for v in range(nverts):
                    mt = analyse_modified_terminal(restricted(ufl.classes.CellVertices(mesh)[v, comp]))
                    name = f"cell_vertices {cellname} gdim={gdim} vertex={v} comp={comp} restriction={r}: coordinate_dofs[{off} + 3*{v} + {comp}]"
                    try:
                        got = index_of(acc.cell_vertices(mt, None, None))
                        ok = got == off + 3 * v + comp
                    except Exception as e:  # noqa: BLE001
                        got, ok = f"{type(e).__name__}: {e}", False
                    n += 1
                    (rep.ob(name, "proved", "exhaustive-finite", "exhaustive", sample=dict(obligation=name) if n == 5 else None) if ok else
                     rep.violation(f"geom:cell_vertices:{cellname}:{gdim}:{r}", name + f" fails: index {got}", dict(obligation=name, got=str(got),
                                   how_to_replay="FFCXBackendAccess.cell_vertices on analyse_modified_terminal(CellVertices(mesh)[v, c](r))")))
                if cellname != "interval":
                    for e_i, (v0, v1) in enumerate(topo[1]):
                        mt = analyse_modified_terminal(restricted(ufl.classes.CellEdgeVectors(mesh)[e_i, comp]))
                        name = f"cell_edge_vectors {cellname} gdim={gdim} edge={e_i} comp={comp} restriction={r}"
                        try:
                            res = acc.cell_edge_vectors(mt, None, None)
                            assert isinstance(res, L.Sub)
                            a, b = index_of(res.lhs), index_of(res.rhs)
                            ok = {a, b} == {off + 3 * v0 + comp, off + 3 * v1 + comp}
                        except Exception as e:  # noqa: BLE001
                            a = b = f"{type(e).__name__}: {e}"
                            ok = False
                        n += 1
                        (rep.ob(name, "proved", "exhaustive-finite", "exhaustive") if ok else
                         rep.violation(f"geom:cell_edge_vectors:{cellname}:{gdim}:{r}", name + f" fails: indices {a}, {b}", dict(obligation=name)))
                if cellname in ("tetrahedron", "hexahedron"):
                    nfe = 3 if cellname == "tetrahedron" else 4
                    for fe in range(nfe):
                        mt = analyse_modified_terminal(restricted(ufl.classes.FacetEdgeVectors(mesh)[fe, comp]))
                        name = f"facet_edge_vectors {cellname} facet-edge={fe} comp={comp} restriction={r}"
                        try:
                            res = acc.facet_edge_vectors(mt, None, None)
                            assert isinstance(res, L.Sub)
                            # index = 3*table[facet][edge][k] + comp + off with the table value supplied by env
                            a, b = index_of(res.lhs), index_of(res.rhs)
                            ok = (a - comp - off) % 3 == 0 and (b - comp - off) % 3 == 0 and 0 <= (a - comp - off) // 3 <= 3 and 0 <= (b - comp - off) // 3 <= 3
                        except Exception as e:  # noqa: BLE001
                            a = b = f"{type(e).__name__}: {e}"
                            ok = False
                        n += 1
                        (rep.ob(name, "proved", "exhaustive-finite", "exhaustive") if ok else
                         rep.violation(f"geom:facet_edge_vectors:{cellname}:{r}", name + f" fails: indices {a}, {b}", dict(obligation=name)))


# ------------------------------------------------------------------------------------------ C05
def c05_flat_component(rep, tier, seed):
    """Constants are read from c flattened row-major: analyse_modified_terminal(K[idx]).flat_component == flat(idx, shape)
    for every index of every constant shape with extents 1..3 and rank <= 3; the same for geometry without symmetry
    (Jacobian of non-square shape). Exhaustive on the real function."""
    import itertools

    import basix.ufl
    import ufl

    from contracts import spec
    from ffcx.ir.analysis.modified_terminals import analyse_modified_terminal

    mesh = ufl.Mesh(basix.ufl.element("Lagrange", "triangle", 1, shape=(3,)))
    n = 0
    shapes = [s for r in (1, 2, 3) for s in itertools.product((1, 2, 3), repeat=r)]
    for shape in shapes:
        K = ufl.Constant(mesh, shape=shape)
        for idx in itertools.product(*[range(s) for s in shape]):
            mt = analyse_modified_terminal(K[idx])
            want = spec.flat(list(idx), list(shape))
            n += 1
            name = f"Constant of shape {shape}: entry {idx} has flat component {want} (row-major)"
            if mt.flat_component == want:
                rep.ob(name, "proved", "exhaustive-finite", "exhaustive", sample=dict(obligation=name) if n == 40 else None)
            else:
                rep.violation(f"flat-component:constant:{shape}", name + f" fails: got {mt.flat_component}",
                              dict(obligation=name, got=int(mt.flat_component), how_to_replay="analyse_modified_terminal(Constant(mesh, shape)[idx]).flat_component"))
                break
    J = ufl.Jacobian(mesh)  # shape (3, 2): non-square
    for idx in itertools.product(range(3), range(2)):
        mt = analyse_modified_terminal(J[idx])
        want = spec.flat(list(idx), [3, 2])
        name = f"Jacobian of shape (3, 2): entry {idx} has flat component {want}"
        (rep.ob(name, "proved", "exhaustive-finite", "exhaustive") if mt.flat_component == want else
         rep.violation("flat-component:jacobian", name + f" fails: got {mt.flat_component}", dict(obligation=name)))


# ------------------------------------------------------------------------------------------ C11
def c11_rule_selection(rep, tier, seed):
    """_group_integrands_by_quadrature_rule: for every cell type x integral type x scheme in {vertex, default, custom} the rule
    attached to an integrand is a rule of the INTEGRATION ENTITY: vertex scheme = the entity's reference vertices with equal
    weights summing to the entity's reference volume; default scheme = weights summing to that volume and the requested degree;
    custom = the given points and weights; integrands with different rules never share a list. Exhaustive over the finite
    domain, on the real function (integrals are stand-ins exposing metadata()/integrand())."""
    import warnings

    import basix
    import numpy as np
    import ufl

    from ffcx.ir.representation import _group_integrands_by_quadrature_rule as group

    class Itg:
        def __init__(self, md, tag):
            self.md, self.tag = md, tag

        def metadata(self):
            return self.md

        def integrand(self):
            return self.tag

    vol = {"point": 1.0, "interval": 1.0, "triangle": 0.5, "quadrilateral": 1.0, "tetrahedron": 1 / 6, "hexahedron": 1.0}
    entity = {"cell": 0, "exterior_facet": 1, "interior_facet": 1, "ridge": 2}
    cells = ["interval", "triangle", "quadrilateral", "tetrahedron", "hexahedron"]
    n = 0
    for cellname in cells:
        cell = ufl.Cell(cellname)
        ct = getattr(basix.CellType, cellname)
        tdim = cell.topological_dimension
        for itype, codim in entity.items():
            if tdim - codim < 0 or (itype == "ridge" and tdim < 2):
                continue
            sub = basix.cell.subentity_types(ct)[tdim - codim]
            ent = sub[0]
            for scheme in ("vertex", "default"):
                for degrees in ((1,), (2,), (1, 2), (2, 1)):
                    if scheme == "vertex" and tdim - codim == 0:
                        continue
                    itgs = [Itg({"quadrature_rule": scheme, "quadrature_degree": d}, f"integrand{k}") for k, d in enumerate(degrees)]
                    name = f"{cellname} {itype} scheme={scheme} degrees={degrees}: rules belong to the integration entity ({ent.name})"
                    try:
                        with warnings.catch_warnings():
                            warnings.simplefilter("ignore")
                            g = group(itgs, (), itype, cell, False)
                        ok = set(g.keys()) == {ent}
                        rules = g.get(ent, {})
                        for rule, lst in rules.items():
                            ok = ok and abs(float(np.sum(rule.weights)) - vol[ent.name]) < 1e-12
                            ok = ok and rule.points.shape[1] == tdim - codim
                            if scheme == "vertex":
                                ok = ok and np.allclose(rule.points, basix.geometry(ent)) and np.allclose(rule.weights, rule.weights[0])
                        if scheme == "default":
                            ok = ok and sorted(x for lst in rules.values() for x in lst) == sorted(i.tag for i in itgs)
                            ok = ok and len(rules) == len(set(degrees)) or (ok and len(rules) <= len(degrees))
                    except Exception as e:  # noqa: BLE001
                        ok = False
                        name += f" [{type(e).__name__}: {e}]"
                    n += 1
                    if ok:
                        rep.ob(name, "proved", "exhaustive-finite", "exhaustive", sample=dict(obligation=name) if n == 7 else None)
                    else:
                        rep.violation(f"rule-selection:{cellname}:{itype}:{scheme}:{len(degrees)}", name + " fails",
                                      dict(obligation=name, how_to_replay="ffcx.ir.representation._group_integrands_by_quadrature_rule with stand-in integrals"))
    # custom scheme: points and weights unchanged
    pts, wts = np.array([[0.2, 0.3], [0.6, 0.1]]), np.array([0.25, 0.25])
    g = group([Itg({"quadrature_rule": "custom", "quadrature_points": pts, "quadrature_weights": wts}, "x")], (), "cell", ufl.Cell("triangle"), False)
    (rule,) = g[basix.CellType.triangle].keys()
    ok = np.array_equal(rule.points, pts) and np.array_equal(rule.weights, wts)
    (rep.ob("custom scheme: the metadata's points and weights are used unchanged", "proved", "exhaustive-finite", "exhaustive") if ok else
     rep.violation("rule-selection:custom", "custom quadrature points/weights are altered", {}))


# ------------------------------------------------------------------------------------------ C17
def c17_check_dependency(rep, tier, seed):
    """optimizer.check_dependency(arg, index) is False only if arg does not mention the index - exhaustive over the operand
    shapes the generators build (symbols, literals, array accesses whose indices are symbols, literals, entity/permutation
    reads, or ONE Sum/Product of those), on the real function."""
    import itertools

    import ffcx.codegeneration.lnodes as L
    from ffcx.codegeneration.optimizer import check_dependency

    i, j, k = (L.Symbol(n, L.DataType.INT) for n in "ijk")
    ent = L.Symbol("entity_local_index", L.DataType.INT)[0]
    atoms = [i, j, k, L.LiteralInt(0), L.LiteralInt(2)]
    idx_exprs = list(atoms) + [ent]
    for a, b in itertools.permutations(atoms, 2):
        idx_exprs.append(L.Sum([a, b]))
        idx_exprs.append(L.Product([a, b]))

    def mentions(e, s):
        if isinstance(e, L.Symbol):
            return e == s
        if isinstance(e, L.NaryOp):
            return any(mentions(a, s) for a in e.args)
        if isinstance(e, L.ArrayAccess):
            return any(mentions(x, s) for x in e.indices)
        return False

    T = L.Symbol("FE0", L.DataType.REAL)
    operands = [L.Symbol("fw0", L.DataType.SCALAR), L.LiteralFloat(2.0), L.LiteralInt(3)]
    for n in (1, 2, 3):
        for combo in itertools.product(idx_exprs, repeat=n) if n < 3 else itertools.product(idx_exprs[:6], repeat=3):
            operands.append(L.ArrayAccess(T, list(combo)))
    bad = 0
    n = 0
    for op in operands:
        for s in (i, j):
            n += 1
            got = check_dependency(op, s)
            want = mentions(op, s)
            if got is False and want:
                bad += 1
                rep.violation("check_dependency:missed", f"check_dependency({op!r}, {s!r}) is False but the operand mentions the index: "
                              "licm would hoist an index-dependent factor", dict(operand=repr(op), index=repr(s)))
                return
    rep.ob(f"check_dependency is sound on {n} (operand, index) pairs of the generator shapes", "proved", "exhaustive-finite", "exhaustive")


def c13_cross_process(rep, tier, seed):
    """Names computed for a fixed set of requests are the same in a fresh process and in a process with a history
    (other objects named and released before): bounded over the sampled requests."""
    import json
    import subprocess
    import sys

    child = r'''
import sys, json, gc
sys.path.insert(0, %(root)r)
import numpy as np, basix.ufl, ufl
from ffcx import naming
history = int(sys.argv[1])
def objs():
    mesh = ufl.Mesh(basix.ufl.element("Lagrange", "triangle", 1, shape=(2,)))
    P1 = ufl.FunctionSpace(mesh, basix.ufl.element("Lagrange", "triangle", 1))
    P2 = ufl.FunctionSpace(mesh, basix.ufl.element("Lagrange", "triangle", 2))
    return mesh, P1, P2
pts = np.array([[0.25, 0.25], [0.5, 0.1]])
if history:
    for k in range(40):
        mesh, P1, P2 = objs()
        e = ufl.grad(ufl.Coefficient(P1 if k % 2 else P2)) if k % 3 else ufl.Coefficient(P1) ** 2
        naming.expression_name((e, pts), "warm")
        naming.compute_signature([(e, pts)], "warm")
        f = ufl.Coefficient(P1) * ufl.TestFunction(P1) * ufl.dx
        naming.form_name(f, 0, "warm")
        del e, f, mesh, P1, P2
        gc.collect()
out = []
for k in range(12):
    mesh, P1, P2 = objs()
    V = P2 if k % 2 else P1
    f = ufl.Coefficient(V)
    e = [ufl.grad(f), f * f, ufl.grad(ufl.grad(f)), f.dx(0)][k % 4]
    out.append(naming.expression_name((e, pts), "p"))
    a = ufl.TrialFunction(V) * ufl.TestFunction(V) * ufl.dx(k % 3)
    out.append(naming.form_name(a, 0, "p"))
    out.append(naming.integral_name(a, "cell", 0, (k % 3,), "p"))
    del mesh, P1, P2, V, f, e, a
    gc.collect()
# expressions over two meshes: the meshes are created in the opposite order in the process with history
def two_mesh(order):
    ms = {}
    for tag in order:
        ms[tag] = ufl.Mesh(basix.ufl.element("Lagrange", "triangle", 1, shape=(2,)))
    VA = ufl.FunctionSpace(ms["A"], basix.ufl.element("Lagrange", "triangle", 1))
    VB = ufl.FunctionSpace(ms["B"], basix.ufl.element("Lagrange", "triangle", 2))
    fA, gB = ufl.Coefficient(VA), ufl.Coefficient(VB)
    return [fA * gB.dx(0), gB * fA.dx(1) + fA]
for e in two_mesh("BA" if history else "AB"):
    out.append(naming.expression_name((e, pts), "p"))
    out.append(naming.compute_signature([(e, pts)], "p"))
print(json.dumps(out))
'''
    res = {}
    for h in (0, 1):
        r = subprocess.run([sys.executable, "-c", child.replace("%(root)r", repr(os.path.dirname(os.path.dirname(os.path.abspath(__file__))))), str(h)], capture_output=True, text=True, timeout=600,
                           env=dict(__import__("os").environ, PYTHONHASHSEED=str(h + seed % 3)))
        if r.returncode != 0:
            rep.error("c13 cross-process", r.stderr[-800:])
            return
        res[h] = json.loads(r.stdout.strip().splitlines()[-1])
    same = res[0] == res[1]
    distinct = len(set(res[0])) == len(set(res[0][i] for i in range(len(res[0]))))
    name = "names of 40 sampled requests (incl. expressions over two meshes created in the opposite order) are equal in a fresh process and in a process that named and released 120 other objects before"
    if same:
        rep.ob(name, "proved", "runtime-contract", "bounded")
    else:
        k = next(i for i, (a, b) in enumerate(zip(res[0], res[1])) if a != b)
        rep.violation("names:history", name + f" fails at request #{k}: {res[0][k][:30]} vs {res[1][k][:30]}",
                      dict(obligation=name, request=k, fresh=res[0][k], with_history=res[1][k],
                           how_to_replay="checks/finite.py::c13_cross_process child script with history 0 / 1"))
    # different integrands must not share a name (k%4 classes x P1/P2)
    exprs = res[0][0:36:3]
    classes = {}
    for k, nm in enumerate(exprs):
        classes.setdefault(nm, set()).add((k % 4, k % 2))
    bad = {nm: c for nm, c in classes.items() if len(c) > 1}
    (rep.ob("different sampled expressions get different names", "proved", "runtime-contract", "bounded") if not bad else
     rep.violation("names:collision", f"different expressions share a name: {list(bad.values())[:2]}", {}))


def c03_table_predicates(rep, tier, seed):
    """The table classifiers look at EVERY entry: a table that deviates in a single entry (any permutation, entity, point, dof)
    from the permutation-/point-/entity-independent pattern is not classified as such; tables that follow the pattern are.
    Exhaustive over all single-entry positions of [perms][entities][points][dofs] tables of extents (3,3,3,2), (3,3,1,2), (2,2,1,1), (3,1,3,2),
    on the real functions."""
    import itertools

    import numpy as np

    import ffcx.ir.elementtables as ET

    rng = np.random.default_rng(7)
    cases = []
    # also degenerate extents: one point (custom one-point rules), one entity, one dof
    for shape in ((3, 3, 3, 2), (3, 3, 1, 2), (2, 2, 1, 1), (3, 1, 3, 2)):
        base_perm = np.broadcast_to(rng.random((1,) + shape[1:]) + 0.5, shape).copy()  # same for every permutation
        base_pw = np.broadcast_to(rng.random((shape[0], shape[1], 1, shape[3])) + 0.5, shape).copy()  # same for every point
        base_un = np.broadcast_to(rng.random((shape[0], 1, shape[2], shape[3])) + 0.5, shape).copy()  # same for every entity
        cases.append((f"is_permuted_table{list(shape)}", ET.is_permuted_table, base_perm, False, lambda pos: pos[0] >= 1, shape))
        if shape[2] > 1:  # a one-point table is by definition not piecewise (nothing can be said about other points)
            cases.append((f"is_piecewise_table{list(shape)}", ET.is_piecewise_table, base_pw, True, lambda pos: pos[0] == 0 and pos[2] >= 1, shape))
        if shape[1] > 1:
            cases.append((f"is_uniform_table{list(shape)}", ET.is_uniform_table, base_un, True, lambda pos: pos[0] == 0 and pos[1] >= 1, shape))
    shape = (3, 3, 3, 2)
    for name, f, base, base_value, relevant, shape in cases:
        ok0 = bool(f(base)) == base_value
        nm = f"{name}: a table following the pattern is classified {base_value}"
        (rep.ob(nm, "proved", "exhaustive-finite", "exhaustive") if ok0 else rep.violation(f"table-predicate:{name}:base", nm + " fails", {}))
        missed = []
        n = 0
        for pos in itertools.product(*[range(s) for s in shape]):
            if not relevant(pos):
                continue
            t = base.copy()
            t[pos] += 0.25
            n += 1
            if bool(f(t)) == base_value:
                missed.append(pos)
        nm = f"{name}: a deviation in any single entry ({n} positions) changes the classification"
        if not missed:
            rep.ob(nm, "proved", "exhaustive-finite", "exhaustive")
        else:
            rep.violation(f"table-predicate:{name}:entry", nm + f" fails for positions [perm][entity][point][dof] = {missed[:4]}",
                          dict(obligation=nm, missed=[list(p) for p in missed[:10]],
                               how_to_replay=f"ffcx.ir.elementtables.{name} on a table that differs from the pattern only at that position"))
    shape = (3, 3, 3, 2)
    z = np.zeros(shape)
    o = np.ones(shape)
    for name, f, base in (("is_zeros_table", ET.is_zeros_table, z), ("is_ones_table", ET.is_ones_table, o)):
        missed = []
        for pos in itertools.product(*[range(s) for s in shape]):
            t = base.copy()
            t[pos] += 0.25
            if f(t):
                missed.append(pos)
        nm = f"{name}: true on the constant table, false after changing any single entry"
        (rep.ob(nm, "proved", "exhaustive-finite", "exhaustive") if f(base) and not missed else
         rep.violation(f"table-predicate:{name}", nm + f" fails {missed[:3]}", dict(missed=[list(p) for p in missed[:10]])))


def c19_names(rep, tier, seed):
    """Generated identifiers are valid and distinct for distinct arguments: generate_psi_table_name over a finite realistic
    domain (element number x component x derivative counts x averaging x entity type x rule), weights/sv/sp names per rule,
    new_temp_symbol for successive calls. Exhaustive over the enumerated domain, on the real functions."""
    import itertools
    import re
    import types

    import ffcx.codegeneration.lnodes as L
    from ffcx.codegeneration.symbols import FFCXBackendSymbols
    from ffcx.ir.elementtables import generate_psi_table_name

    ident = re.compile(r"[A-Za-z_][A-Za-z0-9_]*\Z")
    rules = [types.SimpleNamespace(id=lambda s=s: s) for s in ("0a1b2c3d", "fedcba98")]
    derivs = [d for n in (1, 2, 3) for d in itertools.product(range(4), repeat=n) if sum(d) <= 3]
    seen = {}
    n = 0
    bad = None
    for rule, e, c, d, avg, ent in itertools.product(rules, range(0, 13), [None] + list(range(0, 13)), derivs, (None, "cell", "facet"),
                                                     ("cell", "facet", "vertex", "ridge")):
        name = generate_psi_table_name(rule, e, avg, ent, d, c)
        n += 1
        key = (rule.id(), e, c, tuple(x for x in d) if any(d) else (), avg, ent)
        if not ident.match(name):
            bad = ("invalid identifier", name, key)
            break
        if name in seen and seen[name] != key:
            bad = ("collision", name, key, seen[name])
            break
        seen[name] = key
    nm = f"generate_psi_table_name: {n} argument tuples give valid identifiers, distinct for distinct (rule, element, component, derivatives, averaging, entity)"
    (rep.ob(nm, "proved", "exhaustive-finite", "exhaustive") if bad is None else
     rep.violation(f"names:psi:{bad[0]}", nm + f" fails: {bad}", dict(obligation=nm, detail=str(bad))))
    syms = FFCXBackendSymbols({}, {}, {})
    names = set()
    for r in rules:
        names.add(syms.weights_table(r).name)
        names.add(syms.points_table(r).name)
    ok = len(names) == 4 and all(ident.match(x) for x in names)
    (rep.ob("weights_/points_ table names are identifiers, distinct per rule", "proved", "exhaustive-finite", "exhaustive") if ok else
     rep.violation("names:weights", f"weights/points table names collide or are invalid: {sorted(names)}", {}))
    # Symbol rejects names that are not identifiers (letters, digits, underscore)
    rejected = 0
    for badname in ("a-b", "a b", "a.b", "a[0]", "", "a+b", "x;"):
        try:
            L.Symbol(badname, L.DataType.REAL)
        except AssertionError:
            rejected += 1
    (rep.ob("L.Symbol rejects names with characters outside [A-Za-z0-9_]", "proved", "exhaustive-finite", "exhaustive") if rejected == 7 else
     rep.violation("names:symbol", "L.Symbol accepts an invalid identifier", {}))


def c19_rejections(rep, tier, seed):
    """Unsupported input is rejected with a Python exception during analysis / IR / code generation (bounded list of
    constructs the code base declares unsupported)."""
    import basix.ufl
    import numpy as np
    import ufl

    from ffcx.compiler import compile_ufl_objects
    from ffcx.options import get_options

    mesh = ufl.Mesh(basix.ufl.element("Lagrange", "triangle", 1, shape=(2,)))
    V = ufl.FunctionSpace(mesh, basix.ufl.element("Lagrange", "triangle", 1))
    D = ufl.FunctionSpace(mesh, basix.ufl.element("Discontinuous Lagrange", "triangle", 1))
    u, v, f = ufl.TrialFunction(V), ufl.TestFunction(V), ufl.Coefficient(V)
    dP = ufl.Measure("dP", domain=mesh)
    dc = ufl.Measure("dc", domain=mesh)
    def prism_form(cell):
        m = ufl.Mesh(basix.ufl.element("Lagrange", cell, 1, shape=(3,)))
        W = ufl.FunctionSpace(m, basix.ufl.element("Lagrange", cell, 1))
        return ufl.TrialFunction(W) * ufl.TestFunction(W) * ufl.ds(metadata={"quadrature_rule": "vertex", "quadrature_degree": 1})

    cases = {
        "empty form": lambda: 0 * u * v * ufl.dx,
        "vertex integral of a discontinuous element": lambda: ufl.TestFunction(D) * dP,
        "custom integral (dc)": lambda: u * v * dc,
        "negative subdomain id": lambda: u * v * ufl.dx(-3),
        "cell average of a coefficient": lambda: ufl.cell_avg(f) * v * ufl.dx,
        "vertex quadrature scheme on the facets of a prism (two facet types)": lambda: prism_form("prism"),
        "vertex quadrature scheme on the facets of a pyramid (two facet types)": lambda: prism_form("pyramid"),
        "facet average of a coefficient": lambda: ufl.facet_avg(f) * v * ufl.ds,
    }
    opts = get_options({})
    for what, mk in cases.items():
        nm = f"rejected before any code is returned: {what}"
        try:
            form = mk()
            code, _ = compile_ufl_objects([form], options=opts, namespace="r")
            rep.violation(f"rejection:{what}", nm + " fails: code was generated", dict(obligation=nm, code_head=code[1][:200]))
        except Exception as e:  # noqa: BLE001
            rep.ob(nm + f" [{type(e).__name__}]", "proved", "runtime-contract", "bounded")
