"""Exhaustive checks over finite domains read from the real code (counted as 'exhaustive')."""
from __future__ import annotations

import ast
import os
import re

from pyvc.interp import file_ast, find_def

REPO = os.environ.get("FFCX_REPO", "/repo")


def ufcx_integral_types():
    from runtime.descriptors import ufcx_enum

    txt = open(os.path.join(REPO, "ffcx/codegeneration/ufcx.h")).read()
    en = ufcx_enum(txt, "ufcx_integral_type")
    return en


def tuple_literals_of_types(path, qual):
    """String tuples iterated / assigned in a function that look like lists of integral types."""
    node = find_def(os.path.join(REPO, path), qual)
    out = []
    if node is None:
        return None
    for n in ast.walk(node):
        if isinstance(n, ast.Tuple) and n.elts and all(isinstance(e, ast.Constant) and isinstance(e.value, str) for e in n.elts):
            vals = tuple(e.value for e in n.elts)
            if "cell" in vals and "exterior_facet" in vals:
                out.append(vals)
    return out


def c06_enum_order(rep, tier, seed):
    """integral_data's type order and _compute_form_ir's keys are the ufcx_integral_type enum order."""
    en = ufcx_integral_types()
    if not en:
        rep.undecide("ufcx_integral_type enum", "anchor missing in ufcx.h")
        return
    want = tuple(n for n, v in sorted(en, key=lambda x: x[1]))
    ok_vals = [v for n, v in sorted(en, key=lambda x: x[1])] == list(range(len(en)))
    rep.ob("ufcx_integral_type enum values are 0..n-1", "proved" if ok_vals else "refuted", "exhaustive-finite", "exhaustive")
    for path, qual in (("ffcx/codegeneration/common.py", "integral_data"), ("ffcx/ir/representation.py", "_compute_form_ir")):
        lits = tuple_literals_of_types(path, qual)
        if not lits:
            rep.undecide(f"{qual}: integral type tuple", "anchor missing")
            continue
        for lit in lits:
            ok = lit == want
            name = f"{path}::{qual}: type tuple {lit} equals enum order {want}"
            if ok:
                rep.ob(name, "proved", "exhaustive-finite", "exhaustive", sample=dict(obligation=name))
            else:
                rep.violation(f"finite:{qual}:type-order", name, dict(obligation=name, got=lit, want=want,
                                                                     how="compare the tuple literal in the function with ufcx.h"))


def c06_no_everywhere_append(rep, tier, seed):
    """analysis._analyze_form passes do_append_everywhere_integrals=False to compute_form_data."""
    node = find_def(os.path.join(REPO, "ffcx/analysis.py"), "_analyze_form")
    if node is None:
        rep.undecide("_analyze_form", "anchor missing")
        return
    found = None
    for n in ast.walk(node):
        if isinstance(n, ast.Call) and ast.unparse(n.func).endswith("compute_form_data"):
            for k in n.keywords:
                if k.arg == "do_append_everywhere_integrals":
                    found = ast.unparse(k.value)
    name = "analysis._analyze_form: compute_form_data(..., do_append_everywhere_integrals=False)"
    if found == "False":
        rep.ob(name, "proved", "exhaustive-finite", "exhaustive")
    elif found is None:
        rep.violation("finite:_analyze_form:everywhere", name + " (keyword absent: UFL's default appends everywhere integrals)",
                      dict(obligation=name, got=None))
    else:
        rep.violation("finite:_analyze_form:everywhere", name, dict(obligation=name, got=found))


def c20_cli_priority(rep, tier, seed):
    """main.main forwards an FFCx option to get_options as a priority option iff it was given on the
    command line (argparse external). Exhaustive over: every option x {absent, given with each choice /
    its default value / another value}, and all pairs of options."""
    import itertools
    import unittest.mock

    import ffcx.main as M
    from ffcx.options import FFCX_DEFAULT_OPTIONS

    def values(name):
        typ, default, _, choices = FFCX_DEFAULT_OPTIONS[name]
        if isinstance(default, bool):
            return [True]
        if choices:
            return list(choices)
        if typ is float:
            return [default, 0.5]
        if typ is int:
            return [default, 10]
        return [default, "numba"] if name == "language" else [default]

    def run(given):
        argv = []
        for k, v in given.items():
            argv += [f"--{k}"] if isinstance(FFCX_DEFAULT_OPTIONS[k][1], bool) else [f"--{k}", str(v)]
        captured = {}

        def fake_get_options(priority_options=None):
            captured["p"] = priority_options
            return {k: v[1] for k, v in FFCX_DEFAULT_OPTIONS.items()}

        with unittest.mock.patch.object(M, "get_options", fake_get_options):
            rc = M.main(argv)
        return argv, captured.get("p"), rc

    names = list(FFCX_DEFAULT_OPTIONS)
    cases = [dict()]
    for n in names:
        for v in values(n):
            cases.append({n: v})
    for a, b in itertools.combinations(names, 2):
        cases.append({a: values(a)[0], b: values(b)[-1]})
    n_ok = 0
    for given in cases:
        try:
            argv, prio, rc = run(given)
        except SystemExit as e:
            rep.undecide(f"cli {given}", f"argparse exited {e}")
            continue
        prio = prio or {}
        for k in names:
            name = f"cli argv={argv}: option {k} is a priority option iff given"
            if k in given:
                ok = k in prio and prio[k] == given[k]
            else:
                ok = k not in prio
            if ok:
                n_ok += 1
                rep.ob(name, "proved", "exhaustive-finite", "exhaustive", sample=dict(argv=argv, priority=str(prio)) if n_ok == 3 else None)
            else:
                kind = "given-but-dropped" if k in given else "absent-but-forwarded"
                rep.violation(f"cli:{k}:{kind}", f"ffcx {' '.join(argv)}: priority options {prio}: {k} {kind}; an "
                              "ffcx_options.json value is then " + ("not overridden by the command line" if k in given else "overridden by a flag that was not given"),
                              dict(obligation=name, argv=argv, priority=str(prio), how_to_replay="ffcx.main.main(argv) with get_options patched to capture its argument"))


def c20_same_entry(rep, tier, seed):
    """The CLI and the JIT both generate code through compiler.compile_ufl_objects with the merged options."""
    import ast

    for path, qual, callee in (("ffcx/main.py", "main", "compiler.compile_ufl_objects"),
                               ("ffcx/codegeneration/jit.py", "_compile_objects", "ffcx.compiler.compile_ufl_objects")):
        node = find_def(os.path.join(REPO, path), qual)
        if node is None:
            rep.undecide(f"{qual}", "anchor missing")
            continue
        calls = [n for n in ast.walk(node) if isinstance(n, ast.Call) and ast.unparse(n.func) == callee]
        name = f"{path}::{qual} generates code through {callee} with options=options"
        ok = len(calls) == 1 and any(k.arg == "options" and ast.unparse(k.value) == "options" for k in calls[0].keywords)
        if ok:
            rep.ob(name, "proved", "exhaustive-finite", "exhaustive")
        else:
            rep.violation(f"finite:{qual}:entry", name, dict(obligation=name, calls=[ast.unparse(c) for c in calls]))


def c20_sanitise(rep, tier, seed):
    """sanitise_filename yields a C identifier fragment: exhaustive over all single code points < 0x3000 in three
    contexts, sampled strings otherwise (bounded)."""
    import ast
    import pathlib
    import random
    import re
    import string

    node = find_def(os.path.join(REPO, "ffcx/main.py"), "main.sanitise_filename")
    if node is None:
        rep.undecide("sanitise_filename", "anchor missing")
        return
    ns = dict(pathlib=pathlib, re=re, string=string)
    exec(compile(ast.Module([node], []), "sanitise_filename", "exec"), ns)  # noqa: S102 - the real source text
    f = ns["sanitise_filename"]
    ok_re = re.compile(r"[A-Za-z0-9_]*\Z")
    bad = []
    n = 0
    for cp in range(1, 0x3000):
        ch = chr(cp)
        for s in (ch, f"a{ch}b.py", f"dir/{ch}{ch}.ufl"):
            n += 1
            if not ok_re.match(f(s)):
                bad.append(s)
    rnd = random.Random(seed)
    for _ in range(3000):
        s = "".join(chr(rnd.choice([rnd.randint(32, 126), rnd.randint(128, 0x2FFF)])) for _ in range(rnd.randint(0, 12)))
        n += 1
        if not ok_re.match(f(s)):
            bad.append(s)
    name = "sanitise_filename(name) matches [A-Za-z0-9_]*"
    if bad:
        rep.violation("sanitise:" + repr(bad[0]), f"{name} fails for {bad[0]!r} -> {f(bad[0])!r}", dict(obligation=name, inputs=bad[:5]))
    else:
        rep.ob(f"{name} ({n} inputs)", "proved", "runtime-contract", "bounded")
