from checks import finite
from checks.e3meta import run_e3meta
from checks.e3num import run_e3num
from checks.generic import run_components

ASSUME = ["E3 numeric (kernel executed on pseudo-random affine simplex data vs an independent UFL/basix reference) is bounded: corpus forms, fixed seeds, rtol 1e-9", "A-FLOAT", "C99 naming scheme (f suffix, c prefix) as oracle for math functions; float kernels may call the double sibling",
          "UFL rejects ordering/real-only functions of complex arguments (so (real-only function, complex argument) pairs are outside the quantifier)",
          "basis functions and geometry are real: conj acts only on coefficients/constants/literals (factorization contracts)",
          "numeric agreement of the four kernels and UFL's complex_mode lowering are not decided"]


def run(tier, seed):
    return run_components("C09", tier, seed, ["e1", finite.c09_tables, finite.c09_complex_switch, "e2", "e3desc", run_e3num, run_e3meta], ASSUME,
                          ["runtime/descriptors.py"])
