from checks import finite
from checks.common import Report


def run(tier, seed):
    rep = Report("C12", tier, seed, level="other")
    new = finite.c12_site_obligations(rep, tier, seed)
    finite.c12_replay(rep, tier, seed, new)
    rep.assume("UFL, basix and numpy are deterministic; basix.CellType hashes are process independent",
               "site-wise non-interference argument: a value can depend on the hash seed or on process history only through the "
               "listed syntactic sources (set iteration, id/hash, global counters)")
    rep.trust("the discharge reasons recorded in checks/finite.py::C12_DISCHARGED (reviewed by hand against the source)")
    return rep.finish()
