"""E3 numbering (bounded): interior-facet kernels give the same physical integral for every pair of local vertex
numberings of the two cells (C03), with the quadrature-permutation codes that make the two sides' points coincide.

Two fixed physical cells (non-affine for quadrilaterals) share an edge.  For every numbering pair the kernel produced by
the real generators is executed (runtime/lnodes_float.py) with coordinate_dofs, vertex-based coefficient dofs, local facet
indices and reflection codes derived from the numbering; results are mapped back to physical vertices and compared with
the first numbering.  Bound: degree-1 vertex-based spaces on triangle, quadrilateral (all 36 / 64 pairs), tetrahedron and hexahedron (150 sampled
pairs of 576 / 2304; the aligning code is found by brute force over the codes, with FFCx's E1-verified point permutations)
(corpus/facet_numbering.py)."""
from __future__ import annotations

import itertools
import multiprocessing as mp
import traceback

import numpy as np

from kernelvc import corpus as C

FILE = "corpus/facet_numbering.py"


def _numberings(cellname):
    import basix

    ct = getattr(basix.CellType, cellname)
    edges = {frozenset(e) for e in basix.topology(ct)[1]}
    nv = len(basix.topology(ct)[0])
    out = []
    for p in itertools.permutations(range(nv)):
        if {frozenset(p[i] for i in e) for e in edges} == edges:
            out.append(p)
    return out


def _physical(cellname, rng):
    """Two cells as lists of physical vertex ids in a valid base numbering, and the vertex positions."""
    if cellname == "triangle":
        pos = {0: (0.0, 0.0), 1: (1.0, 0.1), 2: (0.2, 0.9), 3: (1.1, 1.2)}
        cells = [[0, 1, 2], [1, 2, 3]]
    elif cellname == "quadrilateral":
        # reference quad vertex order: (0,0),(1,0),(0,1),(1,1); two trapezoids sharing the edge {1, 4}
        pos = {0: (0.0, 0.0), 1: (1.0, 0.1), 2: (2.2, -0.1), 3: (-0.1, 1.0), 4: (0.8, 1.3), 5: (2.0, 0.9)}
        cells = [[0, 1, 3, 4], [1, 2, 4, 5]]
    elif cellname == "tetrahedron":
        pos = {0: (0.0, 0.0, 0.0), 1: (1.0, 0.1, 0.0), 2: (0.1, 1.0, 0.1), 3: (0.2, 0.1, 1.0), 4: (0.9, 1.1, 0.9)}
        cells = [[0, 1, 2, 3], [1, 2, 3, 4]]
    else:
        # hexahedron, vertex order x fastest; two distorted bricks sharing the face x = 1
        pos, idx = {}, {}
        for k, (z, y, x) in enumerate(itertools.product((0, 1), (0, 1), (0, 1, 2))):
            pos[k] = (float(x) + 0.1 * y, float(y) - 0.05 * z * x, float(z) + 0.08 * x * y)
            idx[(x, y, z)] = k
        cells = [[idx[(x0 + dx, dy, dz)] for dz in (0, 1) for dy in (0, 1) for dx in (0, 1)] for x0 in (0, 1)]
    pos = {k: np.array(v) + 0.03 * rng.uniform(-1, 1, len(v)) for k, v in pos.items()}
    return cells, pos


_P1 = {}


def _kernel(kn, seed):
    import basix
    import basix.ufl

    from runtime.lnodes_float import run_kernel

    fd, itg = kn.fd, kn.itg
    dom = itg.domain
    cellname = dom.ufl_cell().cellname
    ct = getattr(basix.CellType, cellname)
    topo1 = basix.topology(ct)[1]
    if cellname not in _P1:
        _P1[cellname] = basix.create_element(basix.ElementFamily.P, ct, 1)
    rng = np.random.default_rng(seed)
    cells, pos = _physical(cellname, rng)
    shared = sorted(set(cells[0]) & set(cells[1]))
    nv = len(cells[0])
    coeffs = list(fd.reduced_coefficients)
    args = list(fd.original_form.arguments())
    # physical data: a value per (coefficient, physical vertex, component)
    cval = []
    for c in coeffs:
        bs = c.ufl_element().dim // nv
        cval.append({k: rng.uniform(0.2, 0.8, bs) for k in pos})
    ext = kn.ext
    results = []
    syms = _numberings(cellname)
    tdim = len(basix.topology(ct)) - 1
    gdim = len(next(iter(pos.values())))
    topof = basix.topology(ct)[tdim - 1]
    pairs = list(itertools.product(syms, syms))
    if len(pairs) > 150:  # 576 (tetrahedron) / 2304 (hexahedron) pairs: a fixed pseudo-random sample
        pick = rng.choice(len(pairs), 150, replace=False)
        pairs = [pairs[i] for i in sorted(pick)]
    refg = np.array(basix.geometry(ct), dtype=float)
    probe = np.array([[0.13, 0.21], [0.55, 0.11], [0.2, 0.62]])[:, : tdim - 1]  # generic points of the reference facet

    def facet_phys(Gs, f, Y):
        """Physical positions of reference-facet points Y on local facet f of a cell with numbering Gs (multilinear map)."""
        import ffcx.ir.elementtables as ET  # noqa: F401

        fv = list(topof[f])
        p0 = refg[fv[0]]
        T = np.array([refg[fv[i]] - p0 for i in range(1, tdim)]).T
        X = np.array([p0 + T @ y for y in Y])
        # vertex-based (degree 1) geometry: interpolate the physical vertices with the cell's P1/Q1 basis
        tab = _P1[cellname].tabulate(0, X)[0][:, :, 0]  # [point][vertex]
        V = np.array([pos[Gs[i]] for i in range(len(Gs))])
        return tab @ V

    def permuted(Y, code):
        import ffcx.ir.elementtables as ET

        if tdim == 2:
            return np.asarray(ET.permute_quadrature_interval(Y, code))
        ref, rot = code % 2, code // 2
        if cellname == "tetrahedron":
            return np.asarray(ET.permute_quadrature_triangle(Y, ref, rot))
        return np.asarray(ET.permute_quadrature_quadrilateral(Y, ref, rot))

    ncodes = {2: 2, 3: 6 if cellname == "tetrahedron" else 8}[tdim]
    for s0, s1 in pairs:
        G = [[cells[0][i] for i in s0], [cells[1][i] for i in s1]]  # local vertex -> physical vertex, per side
        facets, codes = [], []
        for side in range(2):
            facets.append(next(k for k, e in enumerate(topof) if sorted(G[side][i] for i in e) == shared))
        # permutation codes (A-PERM: rotations then reflection, code = 2*rot + ref) that make the points coincide:
        # side 0 keeps code 0, side 1 takes the unique code under which its points are physically those of side 0
        target = facet_phys(G[0], facets[0], probe)
        ok_codes = [c for c in range(ncodes) if np.abs(facet_phys(G[1], facets[1], permuted(probe, c)) - target).max() < 1e-12]
        if len(ok_codes) != 1:
            raise RuntimeError(f"harness: {len(ok_codes)} permutation codes align the two sides")
        codes = [0, ok_codes[0]]
        w = np.zeros(max(ext.ext["w"], 1))
        for ci, (lo, hi) in enumerate(ext.all_coeff_ranges):
            n = (hi - lo) // 2
            bs = n // nv
            for side in range(2):
                for i in range(nv):
                    w[lo + side * n + i * bs : lo + side * n + (i + 1) * bs] = cval[ci][G[side][i]]
        x = np.zeros((2 * nv, 3))
        for side in range(2):
            for i in range(nv):
                x[side * nv + i, :gdim] = pos[G[side][i]]
        A = np.zeros(ext.ext["A"])
        run_kernel(kn.program, A, w, np.zeros(max(ext.ext["c"], 1)), x.reshape(-1), facets, codes, False)
        # map to physical labelling: entry for (side, physical vertex, component)
        if args:
            n = A.size // 2
            bs = n // nv
            phys = {}
            for side in range(2):
                for i in range(nv):
                    for b in range(bs):
                        phys[(side, G[side][i], b)] = A[side * n + i * bs + b]
            val = np.array([phys[k] for k in sorted(phys)])
        else:
            val = A.copy()
        results.append(((s0, s1, tuple(facets), tuple(codes)), val))
    base = results[0][1]
    scale = max(np.abs(base).max(), 1e-30)
    bad = [(cfg, float(np.abs(v - base).max())) for cfg, v in results if np.abs(v - base).max() > 1e-10 * scale + 1e-13]
    # flag honesty: if the kernel claims it needs no permutations, the codes must not matter
    return dict(pairs=len(results), bad=[dict(numbering=str(c), err=e) for c, e in bad[:3]], nbad=len(bad), base=base.tolist()[:6])


def _all(seed):
    out = []
    try:
        kernels, ir, analysis, ufd = C.build_kernels(FILE, {})
    except Exception as e:  # noqa: BLE001
        return dict(error=f"{type(e).__name__}: {e}", tb=traceback.format_exc()[-1500:])
    jobs = [(i, seed) for i, k in enumerate(kernels) if k.kind == "integral" and k.integral_type == "interior_facet"]
    global _K
    _K = kernels
    with mp.get_context("fork").Pool(min(16, max(1, len(jobs)))) as pool:
        res = pool.map(_job, jobs, chunksize=1)
    for (i, _), r in zip(jobs, res):
        out.append(dict(name=kernels[i].name, **r))
    return dict(results=out)


def _job(j):
    i, seed = j
    try:
        return _kernel(_K[i], seed)
    except Exception as e:  # noqa: BLE001
        return dict(crashed=f"{type(e).__name__}: {e}", tb=traceback.format_exc()[-1500:])


_cache = {}


def run_e3perm(rep, tier, seed):
    if "r" not in _cache:
        _cache["r"] = _all(4242 + seed)
    r = _cache["r"]
    if "error" in r:
        rep.error("E3 numbering", r["error"] + "\n" + r.get("tb", ""))
        return
    n = 0
    for k in r["results"]:
        name = f"kernel {k['name']}: same physical result for all {k.get('pairs', '?')} pairs of local vertex numberings (codes making the points coincide)"
        if "crashed" in k:
            rep.undecide(name, k["crashed"] + "\n" + k.get("tb", ""))
            continue
        n += 1
        if k["nbad"] == 0:
            rep.ob(name, "proved", "runtime-contract", "bounded")
        else:
            rep.violation(f"numbering:{k['name']}", name + f" fails for {k['nbad']} pairs, e.g. {k['bad'][0]}", dict(obligation=name, failing=k["bad"], corpus_file=FILE,
                                                                                                                      how="python -m checks.e3perm"))
    rep.extra["numbering_kernels_compared"] = n
    if n < 4:
        rep.error("E3 numbering", f"only {n} kernels compared (vacuity guard)")


if __name__ == "__main__":
    import json

    print(json.dumps(_all(4242), indent=1, default=str))
