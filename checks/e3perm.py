"""E3 numbering (bounded): interior-facet kernels give the same physical integral for every pair of local vertex
numberings of the two cells (C03), with the quadrature-permutation codes that make the two sides' points coincide.

Two fixed physical cells (non-affine for quadrilaterals) share an edge.  For every numbering pair the kernel produced by
the real generators is executed (runtime/lnodes_float.py) with coordinate_dofs, vertex-based coefficient dofs, local facet
indices and reflection codes derived from the numbering; results are mapped back to physical vertices and compared with
the first numbering.  Bound: 2D cells (triangle, quadrilateral), degree-1 vertex-based spaces (corpus/facet_numbering.py)."""
from __future__ import annotations

import itertools
import multiprocessing as mp
import traceback

import numpy as np

from kernelvc import corpus as C

FILE = "corpus/facet_numbering.py"


def _numberings(cellname):
    import basix

    ct = getattr(basix.CellType, cellname)
    edges = {frozenset(e) for e in basix.topology(ct)[1]}
    nv = len(basix.topology(ct)[0])
    out = []
    for p in itertools.permutations(range(nv)):
        if {frozenset(p[i] for i in e) for e in edges} == edges:
            out.append(p)
    return out


def _physical(cellname, rng):
    """Two cells as lists of physical vertex ids in a valid base numbering, and the vertex positions."""
    if cellname == "triangle":
        pos = {0: (0.0, 0.0), 1: (1.0, 0.1), 2: (0.2, 0.9), 3: (1.1, 1.2)}
        cells = [[0, 1, 2], [1, 2, 3]]
    else:
        # reference quad vertex order: (0,0),(1,0),(0,1),(1,1); two trapezoids sharing the edge {1, 4}
        pos = {0: (0.0, 0.0), 1: (1.0, 0.1), 2: (2.2, -0.1), 3: (-0.1, 1.0), 4: (0.8, 1.3), 5: (2.0, 0.9)}
        cells = [[0, 1, 3, 4], [1, 2, 4, 5]]
    pos = {k: np.array(v) + 0.03 * rng.uniform(-1, 1, 2) for k, v in pos.items()}
    return cells, pos


def _kernel(kn, seed):
    import basix

    from runtime.lnodes_float import run_kernel

    fd, itg = kn.fd, kn.itg
    dom = itg.domain
    cellname = dom.ufl_cell().cellname
    ct = getattr(basix.CellType, cellname)
    topo1 = basix.topology(ct)[1]
    rng = np.random.default_rng(seed)
    cells, pos = _physical(cellname, rng)
    shared = sorted(set(cells[0]) & set(cells[1]))
    nv = len(cells[0])
    coeffs = list(fd.reduced_coefficients)
    args = list(fd.original_form.arguments())
    # physical data: a value per (coefficient, physical vertex, component)
    cval = []
    for c in coeffs:
        bs = c.ufl_element().dim // nv
        cval.append({k: rng.uniform(0.2, 0.8, bs) for k in pos})
    ext = kn.ext
    results = []
    syms = _numberings(cellname)
    for s0, s1 in itertools.product(syms, syms):
        G = [[cells[0][i] for i in s0], [cells[1][i] for i in s1]]  # local vertex -> physical vertex, per side
        facets, codes = [], []
        for side in range(2):
            f = next(k for k, e in enumerate(topo1) if sorted(G[side][i] for i in e) == shared)
            a = G[side][topo1[f][0]]
            facets.append(f)
            codes.append(0 if a == shared[0] else 1)
        w = np.zeros(max(ext.ext["w"], 1))
        for ci, (lo, hi) in enumerate(ext.all_coeff_ranges):
            n = (hi - lo) // 2
            bs = n // nv
            for side in range(2):
                for i in range(nv):
                    w[lo + side * n + i * bs : lo + side * n + (i + 1) * bs] = cval[ci][G[side][i]]
        x = np.zeros((2 * nv, 3))
        for side in range(2):
            for i in range(nv):
                x[side * nv + i, :2] = pos[G[side][i]]
        A = np.zeros(ext.ext["A"])
        run_kernel(kn.program, A, w, np.zeros(max(ext.ext["c"], 1)), x.reshape(-1), facets, codes, False)
        # map to physical labelling: entry for (side, physical vertex, component)
        if args:
            n = A.size // 2
            bs = n // nv
            phys = {}
            for side in range(2):
                for i in range(nv):
                    for b in range(bs):
                        phys[(side, G[side][i], b)] = A[side * n + i * bs + b]
            val = np.array([phys[k] for k in sorted(phys)])
        else:
            val = A.copy()
        results.append(((s0, s1, tuple(facets), tuple(codes)), val))
    base = results[0][1]
    scale = max(np.abs(base).max(), 1e-30)
    bad = [(cfg, float(np.abs(v - base).max())) for cfg, v in results if np.abs(v - base).max() > 1e-10 * scale + 1e-13]
    # flag honesty: if the kernel claims it needs no permutations, the codes must not matter
    return dict(pairs=len(results), bad=[dict(numbering=str(c), err=e) for c, e in bad[:3]], nbad=len(bad), base=base.tolist()[:6])


def _all(seed):
    out = []
    try:
        kernels, ir, analysis, ufd = C.build_kernels(FILE, {})
    except Exception as e:  # noqa: BLE001
        return dict(error=f"{type(e).__name__}: {e}", tb=traceback.format_exc()[-1500:])
    jobs = [(i, seed) for i, k in enumerate(kernels) if k.kind == "integral" and k.integral_type == "interior_facet"]
    global _K
    _K = kernels
    with mp.get_context("fork").Pool(min(16, max(1, len(jobs)))) as pool:
        res = pool.map(_job, jobs, chunksize=1)
    for (i, _), r in zip(jobs, res):
        out.append(dict(name=kernels[i].name, **r))
    return dict(results=out)


def _job(j):
    i, seed = j
    try:
        return _kernel(_K[i], seed)
    except Exception as e:  # noqa: BLE001
        return dict(crashed=f"{type(e).__name__}: {e}", tb=traceback.format_exc()[-1500:])


_cache = {}


def run_e3perm(rep, tier, seed):
    if "r" not in _cache:
        _cache["r"] = _all(4242 + seed)
    r = _cache["r"]
    if "error" in r:
        rep.error("E3 numbering", r["error"] + "\n" + r.get("tb", ""))
        return
    n = 0
    for k in r["results"]:
        name = f"kernel {k['name']}: same physical result for all {k.get('pairs', '?')} pairs of local vertex numberings (codes making the points coincide)"
        if "crashed" in k:
            rep.undecide(name, k["crashed"] + "\n" + k.get("tb", ""))
            continue
        n += 1
        if k["nbad"] == 0:
            rep.ob(name, "proved", "runtime-contract", "bounded")
        else:
            rep.violation(f"numbering:{k['name']}", name + f" fails for {k['nbad']} pairs, e.g. {k['bad'][0]}", dict(obligation=name, failing=k["bad"], corpus_file=FILE,
                                                                                                                      how="python -m checks.e3perm"))
    rep.extra["numbering_kernels_compared"] = n
    if n < 4:
        rep.error("E3 numbering", f"only {n} kernels compared (vacuity guard)")


if __name__ == "__main__":
    import json

    print(json.dumps(_all(4242), indent=1, default=str))
