from checks import finite
from checks.e3perm import run_e3perm
from checks.e3tables import run_e3tables
from checks.generic import run_components

ASSUME = ["E3 tables: run-time contract on build_optimized_tables (offsets, permutation axis, values against an independent basix tabulation) is bounded by the corpus calls", "A-PERM: the order (rotate, then reflect) and direction of the facet permutations are those DOLFINx's codes denote "
          "(external convention, pinned from current behaviour)", "A-FLOAT: point coordinates are reals",
          "E3 numbering (all pairs of local vertex numberings of two 2D cells sharing an edge, degree-1 spaces, kernels executed numerically) is bounded"]


def run(tier, seed):
    return run_components("C03", tier, seed, ["e1", finite.c03_group_lemmas, finite.c03_stacking, finite.c03_table_predicates, "e2", run_e3perm, lambda rep, t, sd: run_e3tables(rep, t, sd, ("T-PERM", "T-VALUE"))], ASSUME,
                          ["kernelvc (E2)"])
