from checks import finite
from checks.common import Report
from checks.e1 import run_e1
from checks.e3opt import run_e3opt


def run(tier, seed):
    rep = Report("C17", tier, seed)
    run_e1(rep, "C17", tier)
    finite.c17_check_dependency(rep, tier, seed)
    run_e3opt(rep, tier, seed)
    rep.assume("A-FLOAT: float/complex arithmetic treated as real arithmetic (0*x -> 0, reassociation by licm are identities over the reals)",
               "A-INT: ints unbounded",
               "optimiser passes: validated per call on the corpus by exact rational evaluation on two pseudo-random input draws "
               "(polynomial identity testing) - bounded, not a proof; check_dependency is sound only for index expressions nested at "
               "most one level (deeper nestings are not built by the generators)")
    rep.trust("pyvc (E1 interpreter and models)", "z3 5.1.0", "cvc5", "runtime/lnodes_eval.py")
    return rep.finish()
