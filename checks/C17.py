from checks.common import Report
from checks.e1 import run_e1


def run(tier, seed):
    rep = Report("C17", tier, seed)
    run_e1(rep, "C17", tier)
    rep.assume("A-FLOAT: float/complex arithmetic treated as real arithmetic", "A-INT: ints unbounded")
    rep.trust("pyvc (E1 interpreter and models)", "z3 5.1.0", "cvc5")
    return rep.finish()
