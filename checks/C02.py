from checks import finite
from checks.generic import run_components

ASSUME = ["A-INT: Python/numpy ints treated as mathematical integers", "A-FLOAT: floats treated as reals"]


def run(tier, seed):
    return run_components("C02", tier, seed, ["e1", finite.c02_geometry_access, "e2"], ASSUME,
                          ["kernelvc (E2 walker; scoping mirrors C/formatter.py)", "UFL form data as oracle for extents"])
