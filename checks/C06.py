from checks import finite
from checks.e3num import run_e3num
from checks.generic import run_components

ASSUME = ["A-INT: ints unbounded", "np.argsort returns a permutation of range(n) that sorts its argument (external)",
          "UFL's integral_data grouping (which integrands belong to which subdomain id) is trusted",
          "E3 numeric (bounded): the kernel of every corpus (type, id) group with several integrals or a numbered subdomain equals the sum of the reference integrals of that group"]


def run(tier, seed):
    return run_components("C06", tier, seed, ["e1", finite.c06_enum_order, finite.c06_no_everywhere_append, "e3desc", run_e3num], ASSUME,
                          ["runtime/descriptors.py (parse-back of the generated descriptors)"])
