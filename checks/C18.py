from checks import triples
from checks.common import Report
from checks.e1 import run_e1
from checks.e3nbrun import run_e3nbrun
from checks.e3numba import run_e3numba


def run(tier, seed):
    rep = Report("C18", tier, seed)
    run_e1(rep, "C18", tier)
    triples.run_triples(rep, "numba")
    triples.run_quads(rep, "numba", tier)
    run_e3numba(rep, tier, seed)
    run_e3nbrun(rep, tier, seed)
    rep.assume("numeric equality of the two kernels is decided on the corpus only (E3 numba execution: the emitted Python text run under CPython with a stub numba.carray vs the LNodes program under C semantics); numba's own compilation is not exercised (numba is not installed)",
               "L-UNPARSE for the Python grammar (depth-2 => all trees), CPython's ast as the Python grammar",
               "descriptor equality and declared sizes are evaluated on the corpus (bounded)")
    rep.trust("runtime/unparse.py, runtime/descriptors.py", "pyvc (E1)")
    return rep.finish()
