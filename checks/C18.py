from checks import triples
from checks.common import Report
from checks.e1 import run_e1
from checks.e3numba import run_e3numba


def run(tier, seed):
    rep = Report("C18", tier, seed)
    run_e1(rep, "C18", tier)
    triples.run_triples(rep, "numba")
    triples.run_quads(rep, "numba", tier)
    run_e3numba(rep, tier, seed)
    rep.assume("numeric equality of the two kernels and numba's own compilation are not decided",
               "L-UNPARSE for the Python grammar (depth-2 => all trees), CPython's ast as the Python grammar",
               "descriptor equality and declared sizes are evaluated on the corpus (bounded)")
    rep.trust("runtime/unparse.py, runtime/descriptors.py", "pyvc (E1)")
    return rep.finish()
