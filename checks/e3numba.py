"""E3 (bounded): the numba module of each corpus file is valid Python whose descriptors equal the C module's,
and whose declared array sizes cover the UFCx extents."""
from __future__ import annotations

import ast
import multiprocessing as mp
import re
import traceback

from kernelvc import corpus as C
from runtime import descriptors as D


def _numba_value(parsed, v):
    """Resolve a class field: literal, or a name of a module-level list."""
    if isinstance(v, str) and v in parsed["assigns"]:
        try:
            return ast.literal_eval(parsed["assigns"][v])
        except Exception:  # noqa: BLE001
            return parsed["assigns"][v]
    return v


def _one(job):
    rel, opts = job
    import numpy as np
    import ufl.algorithms

    from ffcx.analysis import analyze_ufl_objects
    from ffcx.compiler import compile_ufl_objects
    from ffcx.options import get_options

    res = []

    def report(name, ok, detail=None):
        res.append((name, bool(ok), detail or {}))

    tag = f"{rel}{'' if not opts else opts}"
    try:
        ufd = ufl.algorithms.load_ufl_file(C.resolve(rel))
        objs = ufd.forms + ufd.expressions + ufd.elements
        oc = get_options(dict(opts, language="C"))
        on = get_options(dict(opts, language="numba"))
        c_code, _ = compile_ufl_objects(objs, options=oc, object_names=ufd.object_names, namespace="v")
        n_code, _ = compile_ufl_objects(objs, options=on, object_names=ufd.object_names, namespace="v")
        n_src = n_code[0]
        try:
            pn = D.parse_numba(n_src)
            report(f"{tag}: numba module is valid Python", True)
        except SyntaxError as e:
            report(f"{tag}: numba module is valid Python", False, dict(error=str(e), line=(n_src.splitlines()[e.lineno - 1][:200] if e.lineno else "")))
            return dict(file=rel, opts=opts, results=res)
        # no module-level name is bound twice (a second binding would silently change what earlier kernels read)
        tree = ast.parse(n_src)
        bound = {}
        for st in tree.body:
            names = []
            if isinstance(st, ast.Assign):
                names = [t.id for t in st.targets if isinstance(t, ast.Name)]
            elif isinstance(st, ast.FunctionDef | ast.ClassDef):
                names = [st.name]
            for nme in names:
                bound[nme] = bound.get(nme, 0) + 1
        dup = sorted(k for k, v in bound.items() if v > 1)
        report(f"{tag}: numba module binds every module-level name once", not dup, dict(rebound=dup[:8]))
        # kernels read only their own locals, their parameters, or module-level names bound once (imports, helpers)
        pc = D.parse_c(c_code[1])
        analysis = analyze_ufl_objects(objs, oc["scalar_type"])
        for name, st in pc["structs"].items():
            cls = pn["classes"].get(name)
            if cls is None:
                report(f"{tag}: numba defines {st['kind']} {name[:18]}", False)
                continue
            f = st["fields"]
            if st["kind"] == "form":
                for fld in ("rank", "num_coefficients", "num_constants"):
                    report(f"{tag}: form.{fld} equal in C and numba", int(f[fld]) == cls.get(fld), dict(c=f[fld], numba=cls.get(fld)))
                for fld, cref in (("original_coefficient_positions", f["original_coefficient_positions"]), ("constant_ranks", f["constant_ranks"]),
                                  ("form_integral_ids", f["form_integral_ids"]), ("form_integral_offsets", f["form_integral_offsets"]),
                                  ("finite_element_hashes", f["finite_element_hashes"])):
                    cv = D.arr_ints(pc, cref)
                    nv = _numba_value(pn, cls.get(fld))
                    nv = [] if nv in (None, "None") else nv
                    report(f"{tag}: form.{fld} equal in C and numba", list(cv) == list(nv), dict(c=cv, numba=nv))
                ck = [k.lstrip("&") for k in (D.arr_strs(pc, f["form_integrals"]) or [])]
                nk = pn["assigns"].get(str(cls.get("form_integrals")), "[]")
                nk = [x.strip() for x in nk.strip("[]").split(",") if x.strip()]
                report(f"{tag}: form.form_integrals equal in C and numba", ck == nk, dict(c=[k[-20:] for k in ck], numba=[k[-20:] for k in nk]))
            elif st["kind"] == "integral":
                en = D.arr_ints(pc, f["enabled_coefficients"]) if f["enabled_coefficients"] != "NULL" else []
                report(f"{tag}: integral.enabled_coefficients equal in C and numba", list(en) == list(cls.get("enabled_coefficients") or []),
                       dict(c=en, numba=cls.get("enabled_coefficients")))
                report(f"{tag}: integral.needs_facet_permutations equal in C and numba",
                       (f["needs_facet_permutations"] == "true") == bool(cls.get("needs_facet_permutations")),
                       dict(c=f["needs_facet_permutations"], numba=cls.get("needs_facet_permutations")))
                report(f"{tag}: integral.domain equal in C and numba", int(f["domain"]) == cls.get("domain"), dict(c=f["domain"], numba=cls.get("domain")))
            elif st["kind"] == "expression":
                for fld in ("num_points", "entity_dimension", "num_components", "rank", "num_coefficients", "num_constants"):
                    report(f"{tag}: expression.{fld} equal in C and numba", int(f[fld]) == cls.get(fld), dict(c=f[fld], numba=cls.get(fld)))
                vs = D.arr_ints(pc, f["value_shape"]) if f["value_shape"] != "NULL" else []
                report(f"{tag}: expression.value_shape equal in C and numba", list(vs) == list(cls.get("value_shape") or []),
                       dict(c=vs, numba=cls.get("value_shape")))
                op = D.arr_ints(pc, f["original_coefficient_positions"]) if f["original_coefficient_positions"] != "NULL" else []
                report(f"{tag}: expression.original_coefficient_positions equal in C and numba",
                       list(op) == list(cls.get("original_coefficient_positions") or []), dict(c=op, numba=cls.get("original_coefficient_positions")))
        # declared array sizes of the numba kernels cover the UFCx extents
        ks, ir, an, _ = C.build_kernels(rel, dict(opts, language="numba"))
        sizes = {}
        for m in re.finditer(r"def tabulate_tensor_(\w+)\(.*?\n(.*?)\n\n", n_src, re.S):
            pass
        for fname in pn["funcs"]:
            if not fname.startswith("tabulate_tensor_"):
                continue
            body = n_src[n_src.index(f"def {fname}("):]
            body = body[: body.index("\nclass ")] if "\nclass " in body else body
            d = {}
            for arr, expr in re.findall(r"^\s*(\w+) = numba\.carray\(_\w+, \((.*?)\)\)\s*$", body, re.M):
                try:
                    d[arr] = int(eval(expr, {"np": np}))  # noqa: S307 - integer literal / np.int64(..)
                except Exception:  # noqa: BLE001
                    d[arr] = None
            sizes[fname[len("tabulate_tensor_"):]] = d
        # kernels are linked by name; UFL's form signature (hence every name) of a form whose integrand mixes terminals of two
        # meshes can differ between two loads of the same file in one process (it depends on the digits of the mesh ids), so
        # when the names of this second load are not those of the module the kernels are linked by position instead
        ordered = [f[len("tabulate_tensor_"):] for f in re.findall(r"^def (tabulate_tensor_\w+)\(", n_src, re.M)]
        by_position = len(ordered) == len(ks) and any((k.ir.expression.name + (f"_{k.domain.name}" if k.kind == "integral" else "")) not in sizes for k in ks)
        for pos, k in enumerate(ks):
            nm = k.ir.expression.name + (f"_{k.domain.name}" if k.kind == "integral" else "")
            if by_position:
                nm = ordered[pos]
            d = sizes.get(nm)
            if d is None:
                report(f"{tag}: numba kernel {nm[:20]} declares its array sizes", False)
                continue
            for arr in ("A", "w", "c", "coordinate_dofs"):
                need = k.ext.ext[arr]
                report(f"{tag}: numba {k.integral_type} kernel declares {arr} with at least the UFCx extent",
                       d.get(arr) is not None and d[arr] >= need, dict(declared=d.get(arr), needed=need, kernel=nm[-16:]))
            reads_perm = "quadrature_permutation[" in n_src[n_src.index(f"def tabulate_tensor_{nm}("):].split("\nclass ")[0].split("numba.carray(_quadrature_permutation")[1]
            report(f"{tag}: numba {k.integral_type} kernel declares quadrature_permutation large enough for its reads",
                   (not reads_perm) or (d.get("quadrature_permutation") or 0) >= 1, dict(declared=d.get("quadrature_permutation"), reads=reads_perm))
    except RuntimeError as e:
        if "numba backend does not support" in str(e):
            # rejected with a Python exception during code generation: outside 'every form that FFCx accepts' for this backend
            return dict(file=rel, opts=opts, results=[], rejected=str(e))
        return dict(file=rel, opts=opts, error=f"{type(e).__name__}: {e}", tb=traceback.format_exc()[-1500:])
    except Exception as e:  # noqa: BLE001
        return dict(file=rel, opts=opts, error=f"{type(e).__name__}: {e}", tb=traceback.format_exc()[-1500:])
    return dict(file=rel, opts=opts, results=res)


_cache = {}


def run_all(tier):
    if tier in _cache:
        return _cache[tier]
    jobs = (list(C.QUICK) if tier == "quick" else C.demo_files()) + C.corpus_files()
    jobs = [j for j in jobs if "complex" not in str(j[1].get("scalar_type", "")) or True]
    with mp.get_context("fork").Pool(min(16, len(jobs))) as pool:
        res = pool.map(_one, jobs, chunksize=1)
    _cache[tier] = res
    return res


def run_e3numba(rep, tier, seed):
    n = 0
    for f in run_all(tier):
        if "error" in f:
            rep.error(f"E3 numba {f['file']}{f['opts'] or ''}", f["error"] + "\n" + f.get("tb", ""))
            continue
        if f.get("rejected"):
            rep.extra.setdefault("rejected_by_numba_backend", []).append(f"{f['file']}{f['opts'] or ''}: {f['rejected']}")
        for name, ok, detail in f["results"]:
            n += 1
            if ok:
                rep.ob(f"E3 {name}", "proved", "runtime-contract", "bounded")
            else:
                short = re.sub(r"^.*?: ", "", name)
                rep.violation(f"E3numba:{f['file']}:{short}", f"numba backend disagrees with the C backend / UFCx: {name}",
                              dict(obligation=name, detail=detail, corpus_file=f["file"], options=f["opts"],
                                   how_to_replay=f"compile {f['file']} with language='numba' and language='C' and compare"))
    rep.extra["numba_contract_evaluations"] = n
