from checks import finite, triples
from checks.generic import run_components

ASSUME = ["A-INT", "the C compiler is not run: validity is decided on the LNodes program (scopes, declarations) and on the formatter's text for "
          "depth-2 trees; E2 is bounded over programs by the corpus"]


def run(tier, seed):
    return run_components("C19", tier, seed, ["e1", finite.c19_rule_ids, finite.c19_names, finite.c19_rejections, lambda rep, t, s: triples.run_triples(rep, "C"), "e2"], ASSUME,
                          ["kernelvc (E2 walker; scoping mirrors C/formatter.py)", "pycparser"])
