"""Run E2 (kernelvc) over the corpus and feed a Report with the obligations relevant to a property."""
from __future__ import annotations

import multiprocessing as mp
import traceback

from kernelvc import corpus as C
from kernelvc.obligations import KernelChecker

# obligation-name prefix -> properties it carries
TAGS = {
    "extent": {"C08", "C02", "C04", "C05", "C01", "C10"},
    "frame": {"C07"},
    "purity": {"C07"},
    "accumulate": {"C07"},
    "static-only-const": {"C07"},
    "declared-once": {"C19"},
    "in-scope": {"C19"},
    "well-formed": {"C19", "C08"},
    "read-set": {"C05"},
    "perm-flag": {"C03", "C08"},
    "rule-consistency": {"C11", "C01"},
    "type-sound": {"C09", "C19"},
}


def relevant(prop, kernel, oname):
    kind = oname.split(":", 1)[0]
    if prop not in TAGS.get(kind, ()):
        return False
    if kind == "extent":
        if prop == "C02":
            return kernel["integral_type"] in ("exterior_facet", "interior_facet", "vertex", "ridge")
        if prop == "C04":
            return kernel["kind"] == "expression"
        if prop == "C01":
            return kernel["integral_type"] == "cell"
        if prop == "C05":
            return " w[" in oname or " c[" in oname
        if prop == "C10":
            return "sum_factorization=True" in kernel["id"] or "part=diagonal" in kernel["id"]
    return True


def _one(job):
    rel, opts = job
    out = dict(file=rel, opts=opts, kernels=[])
    try:
        ks, ir, an, ufd = C.build_kernels(rel, opts)
    except Exception as e:  # noqa: BLE001
        out["error"] = f"{type(e).__name__}: {e}"
        out["tb"] = traceback.format_exc()[-1500:]
        return out
    for k in ks:
        kc = KernelChecker(k.name, k.program, k.ext, k.kind)
        try:
            res = kc.run()
        except Exception as e:  # noqa: BLE001
            out["kernels"].append(dict(name=k.name, error=f"{type(e).__name__}: {e}", tb=traceback.format_exc()[-1200:]))
            continue
        # needs_facet_permutations == false  =>  the kernel never reads quadrature_permutation
        flag = bool(k.ir.expression.needs_facet_permutations)
        nreads = len(kc.reads["quadrature_permutation"])
        if not flag:
            res.append(("perm-flag: needs_facet_permutations=false implies no read of quadrature_permutation",
                        "proved" if nreads == 0 else "refuted", "eval", 0.0, dict(reads=nreads)))
        else:
            res.append(("perm-flag: needs_facet_permutations=true (reads allowed)", "proved", "eval", 0.0, dict(reads=nreads)))
        kid = f"{rel}{_optkey(opts)}:{k.integral_type}:{getattr(k, 'itg', None) and k.itg.subdomain_id}:{getattr(k, 'domain', None) and k.domain.name}"
        out["kernels"].append(dict(name=k.name, id=kid, kind=k.kind, integral_type=k.integral_type,
                                   results=[(r[0], r[1], r[2], r[3], _clean(r[4])) for r in res], stats=kc.stats))
    return out


def _optkey(opts):
    return "" if not opts else "[" + ",".join(f"{k}={v}" for k, v in sorted(opts.items())) + "]"


def _clean(d):
    if not d:
        return {}
    return {k: (v if isinstance(v, int | float | str | list | type(None)) else str(v)) for k, v in d.items()}


_cache = {}


def run_corpus(tier):
    if tier in _cache:
        return _cache[tier]
    if tier == "quick":
        jobs = list(C.QUICK) + [j for j in C.corpus_files()]
    else:
        jobs = C.demo_files() + C.corpus_files()
    with mp.get_context("fork").Pool(min(16, len(jobs))) as pool:
        res = pool.map(_one, jobs, chunksize=1)
    _cache[tier] = res
    return res


def run_e2(rep, prop, tier):
    res = run_corpus(tier)
    nk = 0
    files = 0
    for f in res:
        if "error" in f:
            rep.error(f"E2 build {f['file']}{_optkey(f['opts'])}", f["error"] + "\n" + f.get("tb", ""))
            continue
        files += 1
        for k in f["kernels"]:
            if "error" in k:
                rep.error(f"E2 kernel {k['name']}", k["error"] + "\n" + k.get("tb", ""))
                continue
            nk += 1
            seen = set()
            for oname, status, backend, t, detail in k["results"]:
                if not relevant(prop, k, oname):
                    continue
                full = f"E2 {k['id']} :: {oname}"
                if status == "proved":
                    rep.ob(full, "proved", backend, "proved", t,
                           sample=dict(kernel=k["id"], obligation=oname) if len(rep.samples) < 2 else None)
                elif status == "refuted":
                    key = f"E2:{k['id']}:{oname.split(':', 1)[0]}:{detail.get('access') or detail.get('symbol') or detail.get('name') or oname}"
                    if key in seen:
                        continue
                    seen.add(key)
                    rep.violation(key, f"generated kernel violates: {oname}",
                                  dict(kernel=k["name"], obligation=oname, detail=detail,
                                       how_to_replay=f"regenerate the kernel: corpus file {f['file']} options {f['opts']}; "
                                       "the obligation is over all kernel inputs, the countermodel is in 'detail'"),
                                  no_input=False)
                else:
                    rep.undecide(full, detail.get("reason", "solver unknown"))
    rep.extra["corpus_files"] = files
    rep.extra["corpus_kernels_verified"] = nk
    rep.extra["corpus_note"] = ("per kernel: proved for all kernel inputs and all loop iterations; over programs: "
                                "bounded by the corpus (demo/*.py and /verif/corpus/*.py)")
    return nk
