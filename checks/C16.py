from checks import triples
from checks.generic import run_components

ASSUME = ["L-UNPARSE: a printer whose parenthesisation depends only on (parent class, child class, position) and is right on all "
          "depth-2 trees is right on all trees (induction on depth; pen-and-paper)",
          "pycparser implements the ISO C expression grammar; CPython's ast implements Python's"]


def run(tier, seed):
    return run_components("C16", tier, seed,
                          ["e1", lambda rep, t, s: triples.run_triples(rep, "C"),
                           lambda rep, t, s: triples.run_triples(rep, "numba"),
                           lambda rep, t, s: triples.run_quads(rep, "C", t), lambda rep, t, s: triples.run_quads(rep, "numba", t), triples.literal_precision],
                          ASSUME, ["runtime/unparse.py (canonical forms)", "pycparser", "CPython ast"])
