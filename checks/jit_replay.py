"""Native replay of JIT effect-trace counterexamples: run the REAL compile_forms with the fault of the failing path
injected (monkeypatched externals) and observe the real process / cache directory."""
from __future__ import annotations

import contextlib
import io
import logging
import os
import sys
import tempfile
import unittest.mock


class Injected(RuntimeError):
    pass


def _form():
    import basix.ufl
    import ufl

    mesh = ufl.Mesh(basix.ufl.element("Lagrange", "interval", 1, shape=(1,)))
    V = ufl.FunctionSpace(mesh, basix.ufl.element("Lagrange", "interval", 1))
    return ufl.TrialFunction(V) * ufl.TestFunction(V) * ufl.dx


def replay(obligation_tag, fault_label):
    """Returns (verdict, info): verdict in {'violation', 'not-reproduced', 'unsupported'}.  The injected exception is tried
    with and without a message (a bare `assert` / `raise X()` has an empty one)."""
    last = None
    for msg in ("injected fault", None):
        last = _replay(obligation_tag, fault_label, msg)
        if last[0] != "not-reproduced":
            return last
    return last


def _replay(obligation_tag, fault_label, msg):
    import cffi

    import ffcx.codegeneration.jit as J
    import ffcx.compiler

    patches = []
    observed = {}
    cache = tempfile.mkdtemp(prefix="jitreplay_", dir=os.path.join(os.path.dirname(os.path.dirname(os.path.abspath(__file__))), ".venv"))

    def marker_exists():
        return any(f.endswith(".c.cached") for f in os.listdir(cache))

    real_compile = cffi.FFI.compile

    def compile_spy(self, *a, **k):
        observed["marker_before_cc_returned"] = marker_exists()
        if fault_label == "ffibuilder.compile":
            raise (Injected(msg) if msg else Injected())
        return real_compile(self, *a, **k)

    patches.append(unittest.mock.patch.object(cffi.FFI, "compile", compile_spy))
    if fault_label == "compile_ufl_objects":
        patches.append(unittest.mock.patch.object(ffcx.compiler, "compile_ufl_objects", lambda *a, **k: (_ for _ in ()).throw(Injected(msg) if msg else Injected())))
    elif fault_label == "ffibuilder.set_source":
        patches.append(unittest.mock.patch.object(cffi.FFI, "set_source", lambda *a, **k: (_ for _ in ()).throw(Injected(msg) if msg else Injected())))
    elif fault_label == "ffibuilder.cdef":
        patches.append(unittest.mock.patch.object(cffi.FFI, "cdef", lambda *a, **k: (_ for _ in ()).throw(Injected(msg) if msg else Injected())))
    elif fault_label not in ("ffibuilder.compile", "no fault"):
        return "unsupported", dict(reason=f"no injection point for fault {fault_label!r}")
    root = logging.getLogger()
    marker = logging.NullHandler()
    root.addHandler(marker)
    handlers_before = list(root.handlers)
    stdout_before = sys.stdout
    exc = None
    try:
        with contextlib.ExitStack() as st:
            for p in patches:
                st.enter_context(p)
            try:
                J.compile_forms([_form()], cache_dir=cache, timeout=1, cffi_extra_compile_args=["-O0"])
            except BaseException as e:  # noqa: BLE001
                exc = e
    finally:
        observed["handlers_restored"] = list(root.handlers) == handlers_before
        observed["stdout_restored"] = sys.stdout is stdout_before
        root.handlers = [h for h in handlers_before if h is not marker]
        sys.stdout = stdout_before
    files = sorted(os.listdir(cache))
    observed["cache_files"] = files
    observed["exception"] = f"{type(exc).__name__}: {exc}" if exc else None
    observed["lock_left"] = any(f.endswith(".c") for f in files)
    observed["failed_marker"] = any(f.endswith(".c.failed") for f in files)
    import shutil

    shutil.rmtree(cache, ignore_errors=True)
    tag = obligation_tag
    if tag.startswith("O5"):
        bad = not (observed["handlers_restored"] and observed["stdout_restored"])
    elif tag.startswith("O4"):
        bad = exc is not None and (observed["lock_left"] or not observed["failed_marker"] or not isinstance(exc, Injected))
    elif tag.startswith("O2"):
        bad = bool(observed.get("marker_before_cc_returned"))
    else:
        return "unsupported", dict(reason=f"no native observer for {tag}", observed=observed)
    return ("violation" if bad else "not-reproduced"), observed


def cached_objects_order(rep, tier, seed):
    """C14 (bounded, native): a request served from the cache returns the objects in REQUEST order - the real compile_forms
    builds a module of three forms of different rank (C compiler run once), then the same request and a permuted request
    are served from the cache; ranks and kernel tensors per position must be those of the requested forms."""
    import shutil

    import basix.ufl
    import numpy as np
    import ufl

    import ffcx.codegeneration.jit as J

    mesh = ufl.Mesh(basix.ufl.element("Lagrange", "interval", 1, shape=(1,)))
    V = ufl.FunctionSpace(mesh, basix.ufl.element("Lagrange", "interval", 1))
    u, v, f = ufl.TrialFunction(V), ufl.TestFunction(V), ufl.Coefficient(V)
    forms = [u * v * ufl.dx, f * v * ufl.dx, f * f * ufl.dx, 2 * u * v * ufl.dx + u.dx(0) * v.dx(0) * ufl.dx]
    cache = tempfile.mkdtemp(prefix="jitorder_", dir=os.path.join(os.path.dirname(os.path.dirname(os.path.abspath(__file__))), ".venv"))
    name = "compile_forms: objects served from the cache come in request order (4 forms, ranks 2,1,0,2)"
    try:
        with contextlib.redirect_stdout(io.StringIO()):
            built, mod, _ = J.compile_forms(forms, cache_dir=cache, timeout=120)
            again, mod2, code2 = J.compile_forms(forms, cache_dir=cache, timeout=120)
        want = [2, 1, 0, 2]
        got0 = [int(o.rank) for o in built]
        got1 = [int(o.rank) for o in again]
        served_from_cache = code2 == (None, None)

        def tensor(obj, ffi):
            itg = obj.form_integrals[0]
            n = {2: 4, 1: 2, 0: 1}[int(obj.rank)]
            A = np.zeros(n)
            w = np.array([0.5, 1.5])
            c = np.zeros(1)
            x = np.array([0.0, 0.0, 0.0, 2.0, 0.0, 0.0])
            itg.tabulate_tensor_float64(ffi.cast("double*", A.ctypes.data), ffi.cast("double*", w.ctypes.data), ffi.cast("double*", c.ctypes.data),
                                        ffi.cast("double*", x.ctypes.data), ffi.NULL, ffi.NULL, ffi.NULL)
            return A.tolist()

        t0 = [tensor(o, mod.ffi) for o in built]
        t1 = [tensor(o, mod2.ffi) for o in again]
        ok = got0 == want and got1 == want and served_from_cache and all(np.allclose(a, b) for a, b in zip(t0, t1)) and not np.allclose(t0[0], t0[3])
        if ok:
            rep.ob(name, "proved", "runtime-contract", "bounded")
        else:
            rep.violation("jit:cached-order", name + f" fails: built ranks {got0}, cached ranks {got1}, served from cache: {served_from_cache}",
                          dict(obligation=name, built_ranks=got0, cached_ranks=got1, built_tensors=t0, cached_tensors=t1,
                               how_to_replay="checks/jit_replay.py::cached_objects_order"))
    except Exception as e:  # noqa: BLE001
        rep.undecide(name, f"{type(e).__name__}: {e}")
    finally:
        shutil.rmtree(cache, ignore_errors=True)
