from checks import finite
from checks.e3ir import run_e3ir
from checks.e3meta import run_e3meta
from checks.e3num import run_e3num
from checks.e3tables import run_e3tables
from checks.generic import run_components

ASSUME = ["E3 tables: run-time contract on build_optimized_tables (offsets, permutation axis, values against an independent basix tabulation) is bounded by the corpus calls", "A-FLOAT", "equality of the element tensors under the options is decided only on the corpus (E3 metamorphic: both kernels executed on identical pseudo-random inputs, bounded); ufl.extract_blocks for mixed spaces is external",
          "E2/E3 run on the corpus with sum_factorization on/off and part=diagonal/full"]


def run(tier, seed):
    return run_components("C10", tier, seed,
                          ["e1", finite.c10_sumfact_scope, finite.c10_inapplicable_options, finite.c10_clamp, lambda rep, t, s: run_e3ir(rep, "C10", t, only=("tensor", "wf_blockmap")), "e2", run_e3meta, run_e3num, lambda rep, t, sd: run_e3tables(rep, t, sd, ("T-FACTORS",))],
                          ASSUME, ["kernelvc (E2)"])
