from checks import finite
from checks.e3num import run_e3num
from checks.e3tables import run_e3tables
from checks.generic import run_components

ASSUME = ["E3 tables: run-time contract on build_optimized_tables (offsets, permutation axis, values against an independent basix tabulation) is bounded by the corpus calls", "E3 numeric (kernel executed on pseudo-random affine simplex data vs an independent UFL/basix reference) is bounded: corpus forms, fixed seeds, rtol 1e-9", "A-INT: Python/numpy ints treated as mathematical integers", "A-FLOAT: floats treated as reals"]


def run(tier, seed):
    return run_components("C05", tier, seed, ["e1", finite.c05_flat_component, "e2", "e3desc", run_e3num, lambda rep, t, sd: run_e3tables(rep, t, sd, ("T-OFFSET",))], ASSUME,
                          ["kernelvc (E2 walker; scoping mirrors C/formatter.py)", "UFL form data as oracle for extents"])
