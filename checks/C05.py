from checks import finite
from checks.generic import run_components

ASSUME = ["A-INT: Python/numpy ints treated as mathematical integers", "A-FLOAT: floats treated as reals"]


def run(tier, seed):
    return run_components("C05", tier, seed, ["e1", finite.c05_flat_component, "e2", "e3desc"], ASSUME,
                          ["kernelvc (E2 walker; scoping mirrors C/formatter.py)", "UFL form data as oracle for extents"])
