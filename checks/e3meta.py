"""E3 metamorphic (bounded): kernels generated from the same form under different options compute the same tensor.

For every corpus file with option variants the kernels of each variant are executed (runtime/lnodes_float.py) on identical
pseudo-random inputs (perturbed, in general non-affine, cell geometry; random w and c; a few entity indices) and compared:
  sum_factorization True/False : equal tensors            (C10)
  part diagonal/full           : A_diag == diag(A_full)   (C10)
  scalar types                 : real data -> all types agree to the narrower precision; (C09)
No reference integral is involved, so every cell type and element FFCx accepts is within reach."""
from __future__ import annotations

import multiprocessing as mp
import traceback

import numpy as np

from kernelvc import corpus as C


def _group(files):
    by = {}
    for rel, opts in files:
        by.setdefault(rel, []).append(opts)
    return [(rel, v) for rel, v in by.items() if len(v) > 1]


def _inputs(kn, rng, real_data):
    import basix

    ext = kn.ext.ext
    cm = np.issubdtype(np.dtype(kn.options["scalar_type"]), np.complexfloating)
    w = rng.uniform(0.15, 0.85, max(ext["w"], 1))
    c = rng.uniform(0.15, 0.85, max(ext["c"], 1))
    if cm and not real_data:
        w = w + 1j * rng.uniform(0.15, 0.85, w.shape)
        c = c + 1j * rng.uniform(0.15, 0.85, c.shape)
    dom = kn.itg.domain
    cel = dom.ufl_coordinate_element()
    gdim = dom.geometric_dimension
    sub = cel._sub_element if hasattr(cel, "_sub_element") else cel
    pts = np.asarray(sub._element.points, dtype=float)  # reference positions of the coordinate nodes
    nodes = pts.shape[0]
    width = ext["coordinate_dofs"] // (3 * nodes)
    X = np.zeros((width * nodes, 3))
    M = np.eye(gdim)[:, : pts.shape[1]] if gdim >= pts.shape[1] else None
    for s in range(width):
        phys = pts @ M.T + 0.08 * rng.uniform(-1, 1, (nodes, gdim))
        X[s * nodes : (s + 1) * nodes, :gdim] = phys
    return w, c, X.reshape(-1)


def _run(kn, w, c, x, ent):
    from runtime.lnodes_float import run_kernel

    cm = np.issubdtype(np.dtype(kn.options["scalar_type"]), np.complexfloating)
    dt = complex if cm else float
    A = np.zeros(kn.ext.ext["A"], dtype=dt)
    run_kernel(kn.program, A, w.astype(dt), c.astype(dt), x, [ent, ent], [0, 0], cm)
    return A


def _one(job):
    rel, variants, seed = job
    out = []
    try:
        built = [C.build_kernels(rel, o)[0] for o in variants]
    except Exception as e:  # noqa: BLE001
        return dict(file=rel, error=f"{type(e).__name__}: {e}", tb=traceback.format_exc()[-1500:])
    n = len(built[0])
    if any(len(b) != n for b in built):
        return dict(file=rel, error=f"variants give different numbers of kernels: {[len(b) for b in built]}")
    for k in range(n):
        kns = [b[k] for b in built]
        base = kns[0]
        if base.kind != "integral":
            continue
        name = base.name
        try:
            rng = np.random.default_rng(seed + k)
            ents = range(min(base.ext.n_entities, 3))
            comps = []
            for ent in ents:
                w, c, x = _inputs(base, rng, real_data=True)
                As = [_run(kn, w, c, x, ent) for kn in kns]
                for o, kn, A in zip(variants[1:], kns[1:], As[1:]):
                    A0, o0 = As[0], variants[0]
                    a, b = A0, A
                    what = f"{o0} vs {o}"
                    if str(kns[0].options["part"]) != str(kn.options["part"]):
                        full, diag = (A0, A) if str(kn.options["part"]) == "diagonal" else (A, A0)
                        if base.fd.rank == 2:
                            m = int(round(np.sqrt(full.size)))
                            full = full.reshape(m, m).diagonal()
                        a, b = full, diag
                    prec = min(np.finfo(np.dtype(q.options["scalar_type"])).eps for q in (kns[0], kn))
                    tol = max(1e-9, 50 * prec) * max(np.abs(a).max(), np.abs(b).max(), 1e-30) + 1e-13
                    err = float(np.abs(np.asarray(a) - np.asarray(b)).max()) if a.shape == b.shape else float("inf")
                    comps.append(dict(what=what, entity=ent, ok=bool(err <= tol), err=err, tol=float(tol), shapes=[list(a.shape), list(b.shape)]))
            out.append(dict(name=name, comparisons=comps))
        except NotImplementedError as e:
            out.append(dict(name=name, skipped=str(e)))
        except Exception as e:  # noqa: BLE001
            out.append(dict(name=name, crashed=f"{type(e).__name__}: {e}", tb=traceback.format_exc()[-1500:]))
    return dict(file=rel, variants=variants, results=out)


_cache = {}


def run_all(tier, seed):
    if tier in _cache:
        return _cache[tier]
    jobs = [(rel, v, 777 + seed) for rel, v in _group(C.corpus_files())]
    with mp.get_context("fork").Pool(min(16, max(1, len(jobs)))) as pool:
        res = pool.map(_one, jobs, chunksize=1)
    _cache[tier] = res
    return res


def _relevant(prop, variants):
    keys = {k for v in variants for k in v}
    if prop == "C10":
        return bool(keys & {"sum_factorization", "part", "table_rtol", "table_atol"})
    if prop == "C09":
        return "scalar_type" in keys
    return True


def run_e3meta(rep, tier, seed, min_kernels=3):
    n = 0
    for f in run_all(tier, seed):
        if "error" in f:
            rep.error(f"E3 metamorphic {f['file']}", f["error"] + "\n" + f.get("tb", ""))
            continue
        if not _relevant(rep.prop, f["variants"]):
            continue
        for r in f["results"]:
            name = f"kernel {r['name']}: the option variants {f['variants']} compute the same tensor on identical inputs"
            if "skipped" in r:
                continue
            if "crashed" in r:
                rep.undecide(name, r["crashed"] + "\n" + r.get("tb", ""))
                continue
            bad = [c for c in r["comparisons"] if not c["ok"]]
            n += 1
            if not bad:
                rep.ob(name, "proved", "runtime-contract", "bounded")
            else:
                rep.violation(f"metamorphic:{r['name']}", name + f" fails: {bad[0]}", dict(obligation=name, failing=bad[:3], corpus_file=f["file"], variants=f["variants"],
                                                                                             how="python -m checks.e3meta <corpus file>"))
    rep.extra["metamorphic_kernels_compared"] = n
    if n < min_kernels:
        rep.error("E3 metamorphic", f"only {n} kernels compared (vacuity guard: at least {min_kernels} expected)")


if __name__ == "__main__":
    import json
    import sys

    rel = sys.argv[1]
    variants = dict(_group(C.corpus_files()))[rel]
    print(json.dumps(_one((rel, variants, 777)), indent=1, default=str))
