"""E3 (bounded): data-structure invariants of the IR that the E1 contracts assume, evaluated on every corpus IR."""
from __future__ import annotations

import itertools
import multiprocessing as mp
import traceback

import numpy as np

from kernelvc import corpus as C


def _one(job):
    rel, opts = job
    res = []

    def report(name, ok, detail=None):
        res.append((name, bool(ok), detail or {}))

    tag = f"{rel}{'' if not opts else opts}"
    try:
        ks, ir, an, _ = C.build_kernels(rel, opts)
        from ffcx.ir.elementtables import piecewise_ttypes, uniform_ttypes

        for iir in list(ir.integrals) + list(ir.expressions):
            e = iir.expression
            for (cell, rule), data in e.integrand.items():
                F = data["factorization"]
                seen = set()
                for i, attr in F.nodes.items():
                    tr = attr.get("tr")
                    if tr is None or id(tr) in seen:
                        continue
                    seen.add(id(tr))
                    v = tr.values
                    if tr.ttype in ("zeros", "ones"):
                        continue
                    # wf_table: axes are [perm][entity][point][dof]; sliced to 1 iff not permuted / uniform / piecewise
                    report(f"{tag}: wf_table {tr.name}: 4 axes", v.ndim == 4, dict(shape=v.shape))
                    report(f"{tag}: wf_table {tr.name}: permutation axis is 1 iff not is_permuted", (v.shape[0] == 1) == (not tr.is_permuted),
                           dict(shape=v.shape, is_permuted=tr.is_permuted))
                    if tr.ttype in uniform_ttypes:
                        report(f"{tag}: wf_table {tr.name}: uniform table has one entity", v.shape[1] == 1, dict(shape=v.shape))
                    if tr.ttype in piecewise_ttypes:
                        report(f"{tag}: wf_table {tr.name}: piecewise table has one point", v.shape[2] == 1, dict(shape=v.shape))
                    else:
                        npts = rule.points.shape[0] if e.integral_type != "expression" or True else None
                        report(f"{tag}: wf_table {tr.name}: point axis equals the number of quadrature points",
                               v.shape[2] == rule.points.shape[0], dict(shape=v.shape, npoints=rule.points.shape[0]))
                    report(f"{tag}: wf_table {tr.name}: offset and block_size present", tr.offset is not None and tr.block_size is not None)
                    # tensor factorisation: the full table is the outer product of its 1D factor tables
                    if tr.tensor_factors:
                        fs = [t.values[0, 0] for t in tr.tensor_factors]  # [points_k][dofs_k]
                        full = v[0, 0]
                        nq = [f.shape[0] for f in fs]
                        nd = [f.shape[1] for f in fs]
                        ok = full.shape == (int(np.prod(nq)), int(np.prod(nd)))
                        if ok:
                            prod = np.ones(())
                            # row-major over points and over dofs
                            P = fs[0]
                            for f in fs[1:]:
                                P = np.einsum("qd,re->qrde", P.reshape(-1, P.shape[-1]) if P.ndim == 2 else P, f).reshape(
                                    P.shape[0] * f.shape[0], P.shape[1] * f.shape[1])
                            ok = np.allclose(P, full, rtol=1e-9, atol=1e-10)
                        report(f"{tag}: tensor factorisation of {tr.name}: full table equals the outer product of {[t.name for t in tr.tensor_factors]}",
                               ok, dict(shape=list(full.shape), factors=[list(f.shape) for f in fs]))
                # wf_blockmap: blockmap[r][k] = offset_r + k * block_size_r
                for blockmap, contributions in data["block_contributions"].items():
                    for bd in contributions:
                        for r, bm in enumerate(blockmap):
                            td = bd.ma_data[r].tabledata
                            want = tuple(td.offset + k * td.block_size for k in range(len(bm)))
                            report(f"{tag}: wf_blockmap: blockmap[{r}] is offset + k*block_size", tuple(bm) == want and len(bm) == td.values.shape[3],
                                   dict(blockmap=list(bm)[:6], offset=td.offset, block_size=td.block_size))
            # quadrature weights/points consistent (tensor rules: product structure)
            for (cell, rule) in e.integrand.keys():
                if rule.has_tensor_factors:
                    ws = [np.asarray(f[1]) for f in rule.tensor_factors]
                    ps = [np.asarray(f[0]) for f in rule.tensor_factors]
                    W = np.array([np.prod(p) for p in itertools.product(*ws)])
                    Pp = np.array([tuple(x[0] for x in p) for p in itertools.product(*ps)])
                    report(f"{tag}: tensor rule: weights are the row-major products of the 1D weights", np.allclose(W, rule.weights))
                    report(f"{tag}: tensor rule: points are the row-major products of the 1D points", np.allclose(Pp, rule.points))
    except Exception as e:  # noqa: BLE001
        return dict(file=rel, opts=opts, error=f"{type(e).__name__}: {e}", tb=traceback.format_exc()[-1500:])
    return dict(file=rel, opts=opts, results=res)


_cache = {}


def run_all(tier):
    if tier in _cache:
        return _cache[tier]
    jobs = (list(C.QUICK) if tier == "quick" else C.demo_files()) + C.corpus_files()
    with mp.get_context("fork").Pool(min(16, len(jobs))) as pool:
        res = pool.map(_one, jobs, chunksize=1)
    _cache[tier] = res
    return res


def run_e3ir(rep, prop, tier, only=None):
    import re

    n = 0
    for f in run_all(tier):
        if "error" in f:
            rep.error(f"E3 IR {f['file']}{f['opts'] or ''}", f["error"] + "\n" + f.get("tb", ""))
            continue
        for name, ok, detail in f["results"]:
            if only and not any(o in name for o in only):
                continue
            n += 1
            if ok:
                rep.ob(f"E3 {name}", "proved", "runtime-contract", "bounded")
            else:
                short = re.sub(r"^.*?: ", "", name)
                rep.violation(f"E3ir:{f['file']}:{short}", f"IR invariant violated on a corpus form: {name}",
                              dict(obligation=name, detail=detail, corpus_file=f["file"], options=f["opts"]))
    rep.extra["ir_invariant_evaluations"] = n
