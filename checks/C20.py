from checks import finite
from checks.generic import run_components

ASSUME = ["argparse: an absent option yields its default (external)", "dict.update acts key by key",
          "the stand-alone C compilation of the written files and numeric equality with the JIT are not decided"]


def run(tier, seed):
    return run_components("C20", tier, seed, ["e1", finite.c20_cli_priority, finite.c20_main_named_objects, finite.c20_multi_file_run, finite.c20_same_entry, finite.c20_sanitise, "e3desc"],
                          ASSUME, ["runtime/descriptors.py"])
