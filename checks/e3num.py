"""E3 numeric (bounded, never counted as proved): the kernel-level contract 'the tabulated tensor IS the integral'
(C01, C02, C05, C09, C11) and 'the expression kernel IS the expression at the points' (C04).

For each corpus/demo kernel the LNodes program produced by the real generators is executed (runtime/lnodes_float.py) on
pseudo-random cell geometry (affine simplices of both orientations; perturbed, non-affine quadrilaterals/hexahedra and
higher-order simplices), coefficient dofs and constants, and contracted with random argument dof vectors; the result must
equal the same quantity computed by runtime/reference.py from the ORIGINAL UFL integrands/expressions (UFL preprocessing
without pull-backs, scaling or geometry lowering; basix tabulation; explicit geometry; the integral's own quadrature rule).
Kernels outside the reference's fragment are skipped and listed in the evidence."""
from __future__ import annotations

import multiprocessing as mp
import traceback

import numpy as np

from kernelvc import corpus as C

RTOL = 1e-9
MAX_COST = 3_000_000  # scalar sub-expression evaluations per kernel (about 30 s)
CELLS = ("interval", "triangle", "tetrahedron", "quadrilateral", "hexahedron", "prism", "pyramid")
R = None


# ------------------------------------------------------------------------------------------------ geometry draws
def _nodes(cel, rng, flip):
    """Physical positions of the coordinate nodes: an affine image of the reference nodes, plus a node-wise
    perturbation unless the cell is an affine simplex (so quadrilaterals etc. are genuinely non-affine)."""
    sub = cel._sub_element if hasattr(cel, "_sub_element") else cel
    ref = np.asarray(sub._element.points, dtype=float)
    tdim = ref.shape[1]
    M = np.eye(tdim) + 0.3 * rng.uniform(-1, 1, (tdim, tdim))
    if flip:
        M[:, 0] = -M[:, 0]
    v = ref @ M.T + rng.uniform(-1, 1, tdim)
    gdim = cel.reference_value_shape[0] if cel.reference_value_shape else tdim
    if gdim > tdim:  # immersed manifold: embed by a full-rank linear map
        E = np.vstack([np.eye(tdim), 0.4 * rng.uniform(-1, 1, (gdim - tdim, tdim))])
        v = v @ E.T + rng.uniform(-1, 1, gdim)
    simplex_affine = cel.cell_type.name in ("interval", "triangle", "tetrahedron") and sub.embedded_superdegree == 1
    if not simplex_affine:
        v = v + 0.06 * rng.uniform(-1, 1, v.shape)
    return v


def _neighbour(cell0, f0, f1, rng):
    """Nodes of a second (degree-1) cell whose local facet f1 coincides, vertex by vertex and in order, with facet f0
    of cell0; the remaining vertices are cell0's mirrored through the facet."""
    topo = cell0.topo
    tdim = cell0.tdim
    fv0, fv1 = list(topo[tdim - 1][f0]), list(topo[tdim - 1][f1])
    nv = len(topo[0])
    v1 = np.full((nv, cell0.gdim), np.nan)
    for a, b in zip(fv0, fv1):
        v1[b] = cell0.v[a]
    edges = [tuple(e) for e in topo[1]]
    if cell0.simplex:
        opp0 = next(i for i in range(nv) if i not in fv0)
        opp1 = next(i for i in range(nv) if i not in fv1)
        c = cell0.v[fv0].mean(axis=0)
        v1[opp1] = c - (cell0.v[opp0] - c) * 0.8 + 0.05 * rng.uniform(-1, 1, cell0.gdim)
    else:
        def off_facet_neighbour(v, fv):
            return next(w for e in edges if v in e for w in e if w != v and w not in fv)

        for a, b in zip(fv0, fv1):
            a2, b2 = off_facet_neighbour(a, fv0), off_facet_neighbour(b, fv1)
            v1[b2] = cell0.v[a] + 0.8 * (cell0.v[a] - cell0.v[a2]) + 0.04 * rng.uniform(-1, 1, cell0.gdim)
    assert not np.isnan(v1).any()
    if cell0.v.shape[0] > nv:
        # degree-2 triangle geometry: vertex nodes first, then one node per edge (basix edge order). The node of the shared
        # edge is cell0's; the others are the (perturbed) midpoints of cell1's own vertices
        if tdim != 2 or cell0.v.shape[0] != nv + len(edges):
            raise R.Unsupported("interior facets of this higher-order geometry")
        full = np.zeros((nv + len(edges), cell0.gdim))
        full[:nv] = v1
        for e, (a, b) in enumerate(edges):
            full[nv + e] = 0.5 * (v1[a] + v1[b]) + 0.03 * rng.uniform(-1, 1, cell0.gdim)
        full[nv + f1] = cell0.v[nv + f0]
        return full
    return v1


def _quadrature(cellname, md, elements):
    import basix

    scheme = md.get("quadrature_rule", "default")
    if scheme == "custom":
        return np.asarray(md["quadrature_points"], dtype=float), np.asarray(md["quadrature_weights"], dtype=float)
    ct = getattr(basix.CellType, cellname)
    if cellname == "point":
        return np.zeros((1, 0)), np.ones(1)
    if scheme == "vertex":
        # the rule the 'vertex' scheme defines: the vertices of the reference cell, equal weights summing to its volume
        g = np.array(basix.geometry(ct), dtype=float)
        return g, np.full(len(g), R.REFVOL[cellname] / len(g))
    if scheme != "default":
        raise R.Unsupported(f"quadrature scheme {scheme}")
    degree = md.get("quadrature_degree", -1)
    if not isinstance(degree, int | np.integer) or degree < 0:
        degree = int(np.max(md["estimated_polynomial_degree"]))
    ps = basix.PolysetType.standard
    for e in elements:
        ps = basix.polynomials.superset(ct, ps, e.polyset_type)
    return basix.make_quadrature(ct, degree, rule=basix.QuadratureType.default, polyset_type=ps)


# ------------------------------------------------------------------------------------------------ selection
def _wanted(prop, kn):
    it = kn.integral_type
    if prop == "C04":
        return kn.kind == "expression"
    if kn.kind != "integral":
        return prop is None
    if prop == "C01":
        return it == "cell"
    if prop == "C02":
        return it in ("exterior_facet", "interior_facet", "vertex", "ridge")
    if prop == "C05":
        return bool(kn.fd.reduced_coefficients or kn.fd.original_form.constants())
    if prop == "C09":
        return np.issubdtype(np.dtype(kn.options["scalar_type"]), np.complexfloating)
    if prop == "C06":  # the kernel listed under (type, id) adds the sum of the integrands declared for that id
        return len(kn.itg.integrals) > 1 or tuple(kn.itg.subdomain_id) != ("otherwise",)
    if prop == "C10":
        return bool(kn.options.get("sum_factorization"))
    if prop == "C11":
        return len(kn.itg.integrals) > 1 or any(i.metadata().get("quadrature_rule", "default") != "default" or "quadrature_degree" in i.metadata() and i.metadata().get("quadrature_degree") != i.metadata().get("estimated_polynomial_degree") for i in kn.itg.integrals)
    return True


def _one(job):
    rel, opts, seed, prop = job
    global R
    import ufl
    import ufl.algorithms

    import runtime.reference as R_
    from runtime.lnodes_float import run_kernel

    R = R_
    out = []
    try:
        kernels, ir, analysis, ufd = C.build_kernels(rel, opts)
    except Exception as e:  # noqa: BLE001
        return dict(file=rel, opts=opts, error=f"{type(e).__name__}: {e}", tb=traceback.format_exc()[-1500:])
    fd2_cache = {}
    for kn in kernels:
        if not _wanted(prop, kn):
            continue
        name = kn.name
        try:
            if kn.kind == "integral":
                res = _kernel(kn, fd2_cache, seed, run_kernel, ufl)
            else:
                res = _expression(kn, seed, run_kernel, ufl)
            out.append(dict(name=name, **res))
        except R.Unsupported as e:
            out.append(dict(name=name, skipped=str(e)))
        except IndexError as e:
            if " outside (" in str(e):  # raised by the kernel interpreter's bounds checks: the kernel leaves its arrays
                out.append(dict(name=name, comparisons=[dict(config=None, kernel=f"out-of-bounds access: {e}", reference="", ok=False, err=float("inf"), tol=0.0)]))
            else:
                out.append(dict(name=name, crashed=f"{type(e).__name__}: {e}", tb=traceback.format_exc()[-1500:]))
        except Exception as e:  # noqa: BLE001
            out.append(dict(name=name, crashed=f"{type(e).__name__}: {e}", tb=traceback.format_exc()[-1500:]))
    return dict(file=rel, opts=opts, results=out)


def _check_domain(dom, terminals, ufl):
    if not isinstance(dom, ufl.Mesh):
        raise R.Unsupported("mesh sequence")
    cellname = dom.ufl_cell().cellname
    if cellname not in CELLS:
        raise R.Unsupported(f"cell {cellname}")
    if any(t.ufl_function_space().ufl_domain() != dom for t in terminals):
        raise R.Unsupported("several domains")
    return cellname


def _draws(cm, rng, coeffs, consts, ncells, dist):
    def rnd(n, k):  # inside (0, 1): the demos apply ln, sqrt, acos, exp, ... to (combinations of) coefficient values
        lo, hi = (0.15, 0.85) if dist == 0 else (0.3 * (k + 1) - 0.04, 0.3 * (k + 1) + 0.04)
        v = rng.uniform(lo, hi, n)
        return v + 1j * rng.uniform(lo, hi, n) if cm else v

    cdofs = [[rnd(c.ufl_element().dim, k) for k, c in enumerate(coeffs)] for _ in range(ncells)]
    cvals = [rnd(int(np.prod(k.ufl_shape, dtype=int)), j) for j, k in enumerate(consts)]
    return cdofs, cvals


def _retry(compare):
    for dist in (0, 1):
        try:
            return compare(dist)
        except (ValueError, OverflowError, ZeroDivisionError) as e:
            if "domain" not in str(e) and "range" not in str(e) and "division" not in str(e):
                raise
    raise R.Unsupported("no input draw inside the domain of the integrand's math functions")


def _kernel(kn, fd2_cache, seed, run_kernel, ufl):
    fd, itg, options = kn.fd, kn.itg, kn.options
    it = itg.integral_type
    if it not in ("cell", "exterior_facet", "interior_facet", "vertex", "ridge"):
        raise R.Unsupported(f"integral type {it}")
    if str(options["part"]) != "full":
        raise R.Unsupported("diagonal kernels (compared with the full kernel by E3 metamorphic)")
    sumfact = bool(options.get("sum_factorization")) and it == "cell"
    dom = itg.domain
    terminals = list(fd.original_form.arguments()) + list(fd.original_form.coefficients())
    if len(set(fd.original_form.ufl_domains())) != 1:
        raise R.Unsupported("several domains")
    cellname = _check_domain(dom, terminals, ufl)
    cel = dom.ufl_coordinate_element()
    cm = np.issubdtype(np.dtype(options["scalar_type"]), np.complexfloating)
    key = id(fd)
    if key not in fd2_cache:
        fd2_cache[key] = ufl.algorithms.compute_form_data(fd.original_form, do_append_everywhere_integrals=False, complex_mode=cm)
    fd2 = fd2_cache[key]
    match = [d for d in fd2.integral_data if d.integral_type == it and d.subdomain_id == itg.subdomain_id and d.domain == dom]
    if len(match) != 1 or len(match[0].integrals) != len(itg.integrals):
        raise R.Unsupported("cannot align UFL integral data")
    integrals = match[0].integrals
    # UFL's integral scaling (applied in FFCx's run, not in fd2) raises the estimated degree by the degree of the scaling
    # factor on non-affine cells: the same shift for every integral of the group, or the positional pairing is wrong
    shifts = {int(np.max(b.metadata()["estimated_polynomial_degree"])) - int(np.max(a.metadata()["estimated_polynomial_degree"]))
              for a, b in zip(integrals, itg.integrals)}
    if len(shifts) != 1:
        raise R.Unsupported("integral order differs between the two UFL runs")
    shift = shifts.pop()

    rng = np.random.default_rng(seed)
    tdim = dom.ufl_cell().topological_dimension
    nfac = C.cell_entities(cellname, tdim - 1)
    if cellname in ("prism", "pyramid") and it in ("exterior_facet", "interior_facet"):
        raise R.Unsupported("facets of a prism/pyramid (two facet types)")
    if it == "ridge" and tdim != 3:
        raise R.Unsupported("ridge integrals of 2D cells")
    degree1 = (cel._sub_element if hasattr(cel, "_sub_element") else cel).embedded_superdegree == 1
    if it == "cell":
        configs = [(None, None, False), (None, None, True)]
    elif it == "exterior_facet":
        configs = [(f, None, f % 2 == 1) for f in range(nfac)]
    elif it == "vertex":
        configs = [(v, None, v % 2 == 1) for v in range(C.cell_entities(cellname, 0))]
    elif it == "ridge":
        configs = [(e, None, e % 2 == 1) for e in range(C.cell_entities(cellname, tdim - 2))]
    else:
        if not degree1 and not (cellname == "triangle" and cel.dim // dom.geometric_dimension == 6):
            raise R.Unsupported("interior facets of higher-order geometry")
        configs = [(f0, f1, (f0 + f1) % 2 == 1) for f0 in range(nfac) for f1 in range(nfac)]
        if len(configs) > 6:
            idx = rng.choice(len(configs), 6, replace=False)
            configs = [configs[i] for i in sorted(idx)]
    args = sorted(fd.original_form.arguments(), key=lambda a: (a.number(), a.part() or 0))
    if len(args) != fd.rank:
        raise R.Unsupported("argument parts")
    coeffs = list(fd.reduced_coefficients)
    consts = list(fd.original_form.constants())
    width = 2 if it == "interior_facet" else 1
    ext = kn.ext
    comparisons = []
    for f0, f1, flip in configs:
        cell0 = R.Cell(cel, _nodes(cel, rng, flip))
        cells = [cell0]
        if it == "interior_facet":
            cells.append(R.Cell(cel, _neighbour(cell0, f0, f1, rng)))

        def compare(dist):
            cdofs, cvals = _draws(cm, rng, coeffs, consts, len(cells), dist)
            adofs = [[rng.uniform(-1, 1, a.ufl_element().dim) for a in args] for _ in cells]
            # reference
            sides = {}
            for s, (cl, tag) in enumerate(zip(cells, ["+", "-"])):
                fn = {}
                for c, d in zip(coeffs, cdofs[s]):
                    fn[c] = R.FEFunction(c.ufl_element(), cl, d)
                for a, d in zip(args, adofs[s]):
                    fn[a] = R.FEFunction(a.ufl_element(), cl, d)
                sides[tag if it == "interior_facet" else None] = R.Side(cl, (f0, f1)[s] if it in ("exterior_facet", "interior_facet") else None, fn)
            constants = {k: (v[0] if k.ufl_shape == () else R._nest(v, k.ufl_shape)) for k, v in zip(consts, cvals)}
            evaluator = R.Evaluator(sides, constants, cm)
            ref = 0.0
            mag = 0.0
            for integral in integrals:
                md = dict(integral.metadata())
                md["estimated_polynomial_degree"] = int(np.max(md["estimated_polynomial_degree"])) + shift
                # an integral containing a quadrature element is integrated with exactly that element's points and weights
                qels = [e for e in ufl.algorithms.extract_elements(integral) if getattr(e, "has_custom_quadrature", False)]
                if qels:
                    if it != "cell":
                        raise R.Unsupported("quadrature element in a facet integral")
                    qp, qw = qels[0].custom_quadrature()
                    md.update(quadrature_rule="custom", quadrature_points=qp, quadrature_weights=qw)
                els = [x.ufl_element() for x in args]  # the polyset (macro or standard rule) follows the ARGUMENT elements, as documented in representation.py
                if it == "cell":
                    if sumfact and cellname in ("quadrilateral", "hexahedron") and md.get("quadrature_rule", "default") == "default":
                        # sum factorisation integrates with the tensor product of the 1D rule of the same degree
                        p1, w1 = _quadrature("interval", md, els)
                        import itertools

                        d = 2 if cellname == "quadrilateral" else 3
                        pts = np.array([[p[0] for p in c] for c in itertools.product(p1, repeat=d)])
                        W = np.array([np.prod(c) for c in itertools.product(w1, repeat=d)])
                    else:
                        pts, W = _quadrature(cellname, md, els)
                    per_side = [pts]
                    scale = [abs(cell0.geom(X)[2]) for X in pts]
                elif it == "vertex":
                    pts, W = np.array([cell0.refgeom[f0]]), np.ones(1)
                    per_side = [pts]
                    scale = [1.0]
                elif it == "ridge":
                    Xr, W = _quadrature("interval", md, els)
                    pts = cell0.ridge_points(f0, Xr)
                    per_side = [pts]
                    scale = [cell0.ridge_scale(f0, X) for X in pts]
                else:
                    fname = {1: "point", 2: "interval", 3: "triangle" if cell0.simplex else "quadrilateral"}[tdim]
                    Xf, W = _quadrature(fname, md, els)
                    per_side = [cl.facet_points(f, Xf) for cl, f in zip(cells, (f0, f1))]
                    scale = [cell0.facet_scale(f0, X) for X in per_side[0]]
                for q, wq in enumerate(W):
                    X = {k: per_side[i][q] for i, k in enumerate(sides)}
                    if it == "interior_facet" and np.abs(cells[0].push(per_side[0][q]) - cells[1].push(per_side[1][q])).max() > 1e-10:
                        raise RuntimeError("harness: the two sides' quadrature points do not coincide")
                    val = evaluator(integral.integrand(), X)
                    cost = len(evaluator.memo) * len(W) * len(configs)
                    if cost > MAX_COST:
                        raise R.Unsupported(f"reference evaluation too expensive ({len(evaluator.memo)} scalar sub-expressions x {len(W)} points x {len(configs)} cells)")
                    ref = ref + scale[q] * wq * val
                    mag += abs(scale[q] * wq * val)
            # kernel
            dt = complex if cm else float
            A = np.zeros(ext.ext["A"], dtype=dt)
            w = np.zeros(max(ext.ext["w"], 1), dtype=dt)
            for ci, (lo, hi) in enumerate(ext.all_coeff_ranges):
                n = (hi - lo) // width
                for s in range(width):
                    w[lo + s * n : lo + (s + 1) * n] = cdofs[s][ci]
            cc = np.concatenate(cvals).astype(dt) if cvals else np.zeros(1, dtype=dt)
            nodes = cell0.v.shape[0]
            xdofs = np.zeros((width * nodes, 3))
            for s, cl in enumerate(cells):
                xdofs[s * nodes : (s + 1) * nodes, : cl.gdim] = cl.v
            eli = [f for f in (f0, f1) if f is not None] or [0]
            try:
                run_kernel(kn.program, A, w, cc, xdofs.reshape(-1), eli, [0, 0], cm)
            except NotImplementedError as e:
                raise R.Unsupported(f"kernel interpreter: {e}") from None
            dims = [width * a.ufl_element().dim for a in args]
            got = A.reshape(dims) if dims else A.reshape(())
            for a_i in range(len(args)):
                vec = np.concatenate([adofs[s][a_i] for s in range(width)])
                got = np.tensordot(vec, got, axes=(0, 0))
            got = complex(got) if cm else float(got)
            err = abs(got - ref)
            tol = RTOL * max(mag, abs(ref), 1e-30) + 1e-13
            comparisons.append(dict(config=[f0, f1, bool(flip)], kernel=repr(got), reference=repr(ref), ok=bool(err <= tol), err=float(err), tol=float(tol),
                                    nodes=[c.v.tolist() for c in cells]))

        _retry(compare)
    return dict(comparisons=comparisons)


def _expression(kn, seed, run_kernel, ufl):
    """A[point][component][argument dofs] (contracted with random argument dof vectors) == the expression at the point."""
    import ufl.algorithms.analysis as ua
    from ufl.algorithms.apply_algebra_lowering import apply_algebra_lowering

    original, points, options = kn.original, np.asarray(kn.points, dtype=float), kn.options
    cm = np.issubdtype(np.dtype(options["scalar_type"]), np.complexfloating)
    expr = apply_algebra_lowering(ufl.algorithms.expand_derivatives(original))
    dom = ufl.domain.extract_unique_domain(original)
    args = sorted(ua.extract_arguments(original), key=lambda a: a.number())
    coeffs = sorted(ua.extract_coefficients(original), key=lambda c: c.count())
    consts = sorted(ua.extract_constants(original), key=lambda c: c.count())
    cellname = _check_domain(dom, list(args) + list(coeffs), ufl)
    if ua.extract_type(expr, ufl.classes.Restricted):
        raise R.Unsupported("restricted expression")
    cel = dom.ufl_coordinate_element()
    tdim = dom.ufl_cell().topological_dimension
    ext = kn.ext
    # w holds the coefficients that SURVIVE UFL's preprocessing (derivatives of piecewise constants vanish, ...), densely
    # packed in original order; the surviving set is read off the UFL-processed expression
    alive = {c.count() for c in ua.extract_coefficients(kn.processed)}
    packed = [c for c in coeffs if c.count() in alive]
    if ext.ext["w"] != sum(c.ufl_element().dim for c in packed):
        raise R.Unsupported("cannot reconstruct the coefficient packing")
    rng = np.random.default_rng(seed)
    on_facet = points.shape[1] < tdim
    if on_facet and points.shape[1] != tdim - 1:
        raise R.Unsupported("points on sub-entities of codimension > 1")
    nent = C.cell_entities(cellname, tdim - 1) if on_facet else 1
    shape = original.ufl_shape
    comps = list(np.ndindex(*shape)) if shape else [()]
    comparisons = []
    # facet points on an interval facet: permutation code 1 = the reflected facet (X -> 1 - X); other facet types: code 0 only
    cases = [(ent, code) for ent in range(nent) for code in ((0, 1) if on_facet and tdim == 2 else (0,))]
    for ent, code in cases:
        cell = R.Cell(cel, _nodes(cel, rng, ent % 2 == 1))

        def compare(dist):
            cdofs, cvals = _draws(cm, rng, coeffs, consts, 1, dist)
            adofs = [rng.uniform(-1, 1, a.ufl_element().dim) for a in args]
            fn = {c: R.FEFunction(c.ufl_element(), cell, d) for c, d in zip(coeffs, cdofs[0])}
            fn.update({a: R.FEFunction(a.ufl_element(), cell, d) for a, d in zip(args, adofs)})
            constants = {k: (v[0] if k.ufl_shape == () else R._nest(v, k.ufl_shape)) for k, v in zip(consts, cvals)}
            evaluator = R.Evaluator({None: R.Side(cell, ent if on_facet else None, fn)}, constants, cm)
            Xs = cell.facet_points(ent, points if code == 0 else 1.0 - points) if on_facet else points
            ref = np.array([[evaluator(expr, {None: X}, comp) for comp in comps] for X in Xs])
            dt = complex if cm else float
            A = np.zeros(ext.ext["A"], dtype=dt)
            wl = [d for c, d in zip(coeffs, cdofs[0]) if c.count() in alive]
            w = np.concatenate(wl).astype(dt) if wl else np.zeros(1, dtype=dt)
            cc = np.concatenate(cvals).astype(dt) if cvals else np.zeros(1, dtype=dt)
            xdofs = np.zeros((cell.v.shape[0], 3))
            xdofs[:, : cell.gdim] = cell.v
            try:
                run_kernel(kn.program, A, w, cc, xdofs.reshape(-1), [ent, ent], [code, code], cm)
            except NotImplementedError as e:
                raise R.Unsupported(f"kernel interpreter: {e}") from None
            got = A.reshape([len(Xs), len(comps)] + [a.ufl_element().dim for a in args])
            for vec in adofs:
                got = np.tensordot(got, vec, axes=(2, 0))
            err = float(np.abs(got - ref).max())
            tol = RTOL * max(float(np.abs(ref).max()), 1e-30) + 1e-12
            comparisons.append(dict(config=[ent, code, ent % 2 == 1], kernel=repr(got.ravel()[:4].tolist()), reference=repr(ref.ravel()[:4].tolist()), ok=bool(err <= tol),
                                    err=err, tol=float(tol), nodes=[cell.v.tolist()]))

        _retry(compare)
    return dict(comparisons=comparisons)


_cache = {}


def run_all(tier, seed, prop=None):
    if (tier, prop) in _cache:
        return _cache[tier, prop]
    jobs = (list(C.QUICK) if tier == "quick" else C.demo_files()) + C.corpus_files()
    jobs = [(rel, opts, 12345 + seed, prop) for rel, opts in jobs]
    with mp.get_context("fork").Pool(min(16, len(jobs))) as pool:
        res = pool.map(_one, jobs, chunksize=1)
    _cache[tier, prop] = res
    return res


def run_e3num(rep, tier, seed, min_kernels=3):
    n = 0
    skipped = {}
    for f in run_all(tier, seed, rep.prop):
        if "error" in f:
            rep.error(f"E3 numeric {f['file']}", f["error"] + "\n" + f.get("tb", ""))
            continue
        for r in f["results"]:
            name = f"kernel {r['name']}{f['opts'] or ''}: contraction of the tabulated tensor with random dof vectors equals the reference value"
            if "skipped" in r:
                skipped[r["skipped"]] = skipped.get(r["skipped"], 0) + 1
                continue
            if "crashed" in r:
                rep.undecide(name, r["crashed"] + "\n" + r.get("tb", ""))
                continue
            bad = [c for c in r["comparisons"] if not c["ok"]]
            n += 1
            if not bad:
                rep.ob(name, "proved", "runtime-contract", "bounded")
            else:
                rep.violation(f"numeric:{r['name']}", name + f" fails: {bad[0]}", dict(obligation=name, failing=bad[:3], corpus_file=f["file"], options=f["opts"],
                                                                                       how="python -m checks.e3num <corpus file> [options]"))
    rep.extra["numeric_kernels_compared"] = n
    rep.extra["numeric_kernels_outside_reference_fragment"] = skipped
    if n < min_kernels:
        rep.error("E3 numeric", f"only {n} kernels compared (vacuity guard: at least {min_kernels} expected)")


if __name__ == "__main__":
    import json
    import sys

    rel = sys.argv[1]
    opts = eval(sys.argv[2]) if len(sys.argv) > 2 else {}  # noqa: S307
    print(json.dumps(_one((rel, opts, 12345, sys.argv[3] if len(sys.argv) > 3 else None)), indent=1, default=str))
