"""E3 numeric (bounded, never counted as proved): the kernel-level contract 'the tabulated tensor IS the integral'.

For each corpus/demo kernel on an affine simplex cell, the LNodes program produced by the real generators is executed
(runtime/lnodes_float.py) on pseudo-random cell geometry, coefficient dofs and constants, and contracted with random
argument dof vectors; the result must equal the same quantity computed by runtime/reference.py from the ORIGINAL UFL
integrands (UFL preprocessing without pull-backs, scaling or geometry lowering; basix tabulation; explicit affine
geometry; the same quadrature rule and degree).  Forms outside the reference's fragment are skipped and listed."""
from __future__ import annotations

import multiprocessing as mp
import traceback

import numpy as np

from kernelvc import corpus as C

RTOL = 1e-9
MAX_COST = 3_000_000  # scalar sub-expression evaluations per kernel (about 30 s)


def _ref_cell(cellname, rng, flip):
    import basix

    ct = getattr(basix.CellType, cellname)
    g = np.array(basix.geometry(ct), dtype=float)
    tdim = g.shape[1]
    M = np.eye(tdim) + 0.35 * rng.uniform(-1, 1, (tdim, tdim))
    if flip:
        M[:, 0] = -M[:, 0]
    v = g @ M.T + rng.uniform(-1, 1, tdim)
    return v


def _neighbour(cell0, f0, f1, rng):
    """Vertices of a second cell whose local facet f1 coincides (vertex by vertex, in order) with facet f0 of cell0."""
    import basix

    topo = basix.topology(cell0.ct)[cell0.tdim - 1]
    nv = cell0.v.shape[0]
    v1 = np.zeros_like(cell0.v)
    fv0, fv1 = list(topo[f0]), list(topo[f1])
    for a, b in zip(fv0, fv1):
        v1[b] = cell0.v[a]
    opp0 = next(i for i in range(nv) if i not in fv0)
    opp1 = next(i for i in range(nv) if i not in fv1)
    c = cell0.v[fv0].mean(axis=0)
    v1[opp1] = c - (cell0.v[opp0] - c) * 0.8 + 0.05 * rng.uniform(-1, 1, cell0.tdim)
    return v1


def _facet_points(cell, f, Xf):
    """Reference-facet points -> reference-cell points on local facet f."""
    import basix

    g = np.array(basix.geometry(cell.ct), dtype=float)
    topo = basix.topology(cell.ct)[cell.tdim - 1][f]
    p = g[list(topo)]
    if cell.tdim == 1:
        return np.array([p[0]])
    return np.array([p[0] + (p[1:] - p[0]).T @ X for X in Xf])


def _quadrature(cellname, md, polyset_elements):
    import basix

    scheme = md.get("quadrature_rule", "default")
    if scheme == "custom":
        return np.asarray(md["quadrature_points"], dtype=float), np.asarray(md["quadrature_weights"], dtype=float)
    if scheme != "default":
        raise R.Unsupported(f"quadrature scheme {scheme}")
    degree = md.get("quadrature_degree", -1)
    if not isinstance(degree, int | np.integer) or degree < 0:
        degree = int(np.max(md["estimated_polynomial_degree"]))
    ct = getattr(basix.CellType, cellname)
    if cellname == "point":
        return np.zeros((1, 0)), np.ones(1)
    ps = basix.PolysetType.standard
    for e in polyset_elements:
        ps = basix.polynomials.superset(ct, ps, e.polyset_type) if hasattr(e, "polyset_type") else ps
    return basix.make_quadrature(ct, degree, rule=basix.QuadratureType.default, polyset_type=ps)


R = None


def _wanted(prop, kn):
    it = kn.integral_type
    if prop == "C01":
        return it == "cell"
    if prop == "C02":
        return it in ("exterior_facet", "interior_facet")
    if prop == "C05":
        return bool(kn.fd.reduced_coefficients or kn.fd.original_form.constants())
    if prop == "C09":
        return np.issubdtype(np.dtype(kn.options["scalar_type"]), np.complexfloating)
    if prop == "C11":
        return len(kn.itg.integrals) > 1 or any("quadrature_degree" in i.metadata() and i.metadata().get("quadrature_degree") != i.metadata().get("estimated_polynomial_degree") for i in kn.itg.integrals)
    return True


def _one(job):
    rel, opts, seed, prop = job
    global R
    import ufl
    import ufl.algorithms

    import runtime.reference as R_
    from runtime.lnodes_float import run_kernel

    R = R_
    out = []
    try:
        kernels, ir, analysis, ufd = C.build_kernels(rel, opts)
    except Exception as e:  # noqa: BLE001
        return dict(file=rel, opts=opts, error=f"{type(e).__name__}: {e}", tb=traceback.format_exc()[-1500:])
    fd2_cache = {}
    for kn in kernels:
        if kn.kind != "integral" or not _wanted(prop, kn):
            continue
        name = kn.name
        try:
            res = _kernel(kn, fd2_cache, seed, run_kernel, ufl)
            out.append(dict(name=name, **res))
        except R.Unsupported as e:
            out.append(dict(name=name, skipped=str(e)))
        except Exception as e:  # noqa: BLE001
            out.append(dict(name=name, crashed=f"{type(e).__name__}: {e}", tb=traceback.format_exc()[-1500:]))
    return dict(file=rel, opts=opts, results=out)


def _kernel(kn, fd2_cache, seed, run_kernel, ufl):
    import basix.ufl

    fd, itg, options = kn.fd, kn.itg, kn.options
    it = itg.integral_type
    if it not in ("cell", "exterior_facet", "interior_facet"):
        raise R.Unsupported(f"integral type {it}")
    if str(options["part"]) != "full" or options.get("sum_factorization"):
        raise R.Unsupported("diagonal / sum-factorised kernels")
    dom = itg.domain
    if not isinstance(dom, ufl.Mesh):
        raise R.Unsupported("mesh sequence")
    cellname = dom.ufl_cell().cellname
    if cellname not in ("interval", "triangle", "tetrahedron"):
        raise R.Unsupported(f"cell {cellname}")
    cel = dom.ufl_coordinate_element()
    if cel.embedded_superdegree != 1 or dom.geometric_dimension != dom.ufl_cell().topological_dimension:
        raise R.Unsupported("non-affine or manifold geometry")
    terminals = list(fd.original_form.arguments()) + list(fd.original_form.coefficients())
    if len(set(fd.original_form.ufl_domains())) != 1 or any(t.ufl_function_space().ufl_domain() != dom for t in terminals):
        raise R.Unsupported("several domains")
    cm = np.issubdtype(np.dtype(options["scalar_type"]), np.complexfloating)
    if any(getattr(x.ufl_element(), "has_custom_quadrature", False) for x in list(fd.original_form.arguments()) + list(fd.reduced_coefficients)):
        raise R.Unsupported("quadrature element")
    key = id(fd)
    if key not in fd2_cache:
        fd2_cache[key] = ufl.algorithms.compute_form_data(fd.original_form, do_append_everywhere_integrals=False, complex_mode=cm)
    fd2 = fd2_cache[key]
    match = [d for d in fd2.integral_data if d.integral_type == it and d.subdomain_id == itg.subdomain_id and d.domain == dom]
    if len(match) != 1 or len(match[0].integrals) != len(itg.integrals):
        raise R.Unsupported("cannot align UFL integral data")
    integrals = match[0].integrals
    for a, b in zip(integrals, itg.integrals):
        ma, mb = a.metadata(), b.metadata()
        if ma.get("estimated_polynomial_degree") != mb.get("estimated_polynomial_degree"):
            raise R.Unsupported("integral order differs between the two UFL runs")

    rng = np.random.default_rng(seed)
    tdim = dom.ufl_cell().topological_dimension
    nfac = C.cell_entities(cellname, tdim - 1)
    comparisons = []
    configs = []
    if it == "cell":
        configs = [(None, None, False), (None, None, True)]
    elif it == "exterior_facet":
        configs = [(f, None, f % 2 == 1) for f in range(nfac)]
    else:
        configs = [(f0, f1, (f0 + f1) % 2 == 1) for f0 in range(nfac) for f1 in range(nfac)]
        if len(configs) > 6:
            idx = rng.choice(len(configs), 6, replace=False)
            configs = [configs[i] for i in sorted(idx)]
    args = sorted(fd.original_form.arguments(), key=lambda a: (a.number(), a.part() or 0))
    if len(args) != fd.rank:
        raise R.Unsupported("argument parts")
    coeffs = list(fd.reduced_coefficients)
    consts = list(fd.original_form.constants())
    width = 2 if it == "interior_facet" else 1
    ext = kn.ext
    for f0, f1, flip in configs:
        cell0 = R.Cell(cellname, _ref_cell(cellname, rng, flip))
        cells = [cell0]
        if it == "interior_facet":
            cells.append(R.Cell(cellname, _neighbour(cell0, f0, f1, rng)))
        # inputs
        def rnd(n):  # inside (0, 1): the demos apply ln, sqrt, acos, exp, ... to coefficient values
            v = rng.uniform(0.15, 0.85, n)
            return v + 1j * rng.uniform(0.15, 0.85, n) if cm else v

        cdofs = [[rnd(c.ufl_element().dim) for c in coeffs] for _ in cells]
        cvals = [rnd(int(np.prod(k.ufl_shape, dtype=int))) for k in consts]
        adofs = [[rng.uniform(-1, 1, a.ufl_element().dim) for a in args] for _ in cells]
        # reference
        sides = {}
        for s, (cl, tag) in enumerate(zip(cells, ["+", "-"])):
            fn = {}
            for c, d in zip(coeffs, cdofs[s]):
                fn[c] = R.FEFunction(c.ufl_element(), cl, d)
            for a, d in zip(args, adofs[s]):
                fn[a] = R.FEFunction(a.ufl_element(), cl, d)
            side = R.Side(cl, (f0, f1)[s], fn, normal_sign=1.0 if s == 0 else -1.0)
            if it == "interior_facet":
                sides[tag] = side
            else:
                sides[None] = side
        constants = {}
        for k, v in zip(consts, cvals):
            constants[k] = v[0] if k.ufl_shape == () else R._nest(v, k.ufl_shape)
        evaluator = R.Evaluator(sides, constants, cm)
        ref = 0.0
        mag = 0.0
        for integral in integrals:
            md = integral.metadata()
            els = [x.ufl_element() for x in list(args) + coeffs]
            if it == "cell":
                X, W = _quadrature(cellname, md, els)
                scale = abs(cell0.detJ)
                pts = X
            else:
                fname = {1: "point", 2: "interval", 3: "triangle"}[tdim]
                Xf, W = _quadrature(fname, md, els)
                pts = _facet_points(cell0, f0, Xf)
                refvol = {1: 1.0, 2: 1.0, 3: 0.5}[tdim]
                scale = cell0.facet_measure(f0) / refvol
            for Xq, wq in zip(pts, W):
                x = tuple(cell0.push(Xq))
                val = evaluator(integral.integrand(), x)
                cost = len(evaluator.memo) * len(W) * len(configs)
                if cost > MAX_COST:
                    raise R.Unsupported(f"reference evaluation too expensive ({len(evaluator.memo)} scalar sub-expressions x {len(W)} points x {len(configs)} cells)")
                ref = ref + scale * wq * val
                mag += abs(scale * wq * val)
        # kernel
        dt = complex if cm else float
        A = np.zeros(ext.ext["A"], dtype=dt)
        w = np.zeros(max(ext.ext["w"], 1), dtype=dt)
        for ci, (lo, hi) in enumerate(ext.all_coeff_ranges):
            n = (hi - lo) // width
            for s in range(width):
                w[lo + s * n : lo + (s + 1) * n] = cdofs[s][ci]
        cc = np.concatenate(cvals).astype(dt) if cvals else np.zeros(1, dtype=dt)
        nodes = cel.dim // dom.geometric_dimension
        xdofs = np.zeros((width * nodes, 3))
        for s, cl in enumerate(cells):
            xdofs[s * nodes : (s + 1) * nodes, : cl.gdim] = cl.v
        eli = [f for f in (f0, f1) if f is not None] or [0]
        try:
            run_kernel(kn.program, A, w, cc, xdofs.reshape(-1), eli, [0, 0], cm)
        except NotImplementedError as e:
            raise R.Unsupported(f"kernel interpreter: {e}") from None
        dims = [width * a.ufl_element().dim for a in args]
        At = A.reshape(dims) if dims else A.reshape(())
        got = At
        for a_i in range(len(args)):
            vec = np.concatenate([adofs[s][a_i] for s in range(width)])
            got = np.tensordot(vec, got, axes=(0, 0))
        got = complex(got) if cm else float(got)
        err = abs(got - ref)
        tol = RTOL * max(mag, abs(ref), 1e-30) + 1e-13
        comparisons.append(dict(config=[f0, f1, bool(flip)], kernel=repr(got), reference=repr(ref), ok=bool(err <= tol), err=float(err), tol=float(tol),
                                vertices=[c.v.tolist() for c in cells]))
    return dict(comparisons=comparisons)


_cache = {}


def run_all(tier, seed, prop=None):
    if (tier, prop) in _cache:
        return _cache[tier, prop]
    jobs = (list(C.QUICK) if tier == "quick" else C.demo_files()) + C.corpus_files()
    jobs = [(rel, opts, 12345 + seed, prop) for rel, opts in jobs]
    with mp.get_context("fork").Pool(min(16, len(jobs))) as pool:
        res = pool.map(_one, jobs, chunksize=1)
    _cache[tier, prop] = res
    return res


def run_e3num(rep, tier, seed, min_kernels=3):
    n = nskip = 0
    skipped = {}
    for f in run_all(tier, seed, rep.prop):
        if "error" in f:
            rep.error(f"E3 numeric {f['file']}", f["error"] + "\n" + f.get("tb", ""))
            continue
        for r in f["results"]:
            name = f"kernel {r['name']}{f['opts'] or ''}: contraction of the tabulated tensor with random dof vectors equals the reference integral"
            if "skipped" in r:
                nskip += 1
                skipped[r["skipped"]] = skipped.get(r["skipped"], 0) + 1
                continue
            if "crashed" in r:
                rep.undecide(name, r["crashed"] + "\n" + r.get("tb", ""))
                continue
            bad = [c for c in r["comparisons"] if not c["ok"]]
            n += 1
            if not bad:
                rep.ob(name, "proved", "runtime-contract", "bounded")
            else:
                rep.violation(f"numeric:{r['name']}", name + f" fails: {bad[0]}", dict(obligation=name, failing=bad[:3], corpus_file=f["file"], options=f["opts"],
                                                                                       how="python -m checks.e3num <corpus file>"))
    rep.extra["numeric_kernels_compared"] = n
    rep.extra["numeric_kernels_outside_reference_fragment"] = skipped
    if n < min_kernels:
        rep.error("E3 numeric", f"only {n} kernels compared (vacuity guard: at least {min_kernels} expected)")


if __name__ == "__main__":
    import json
    import sys

    rel = sys.argv[1]
    opts = eval(sys.argv[2]) if len(sys.argv) > 2 else {}  # noqa: S307
    print(json.dumps(_one((rel, opts, 12345, None)), indent=1, default=str))
