from checks.common import Report


def run_components(prop, tier, seed, comps, assumptions=(), trusted=(), level="proof", extra=None):
    rep = Report(prop, tier, seed, level=level)
    for c in comps:
        if c == "e1":
            from checks.e1 import run_e1

            run_e1(rep, prop, tier)
        elif c == "e2":
            from checks.e2 import run_e2

            run_e2(rep, prop, tier)
        elif c == "e3desc":
            from checks.e3desc import run_e3desc

            run_e3desc(rep, prop, tier)
        elif callable(c):
            c(rep, tier, seed)
    rep.assume(*assumptions)
    rep.trust("pyvc (E1 interpreter, models of builtins and of LNodes classes)", "z3 5.1.0 / cvc5 1.0.3", *trusted)
    if extra:
        rep.extra.update(extra)
    return rep.finish()
