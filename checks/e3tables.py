"""E3 tables (bounded): a sidecar run-time contract on ffcx.ir.elementtables.build_optimized_tables, checked on every call
made while the corpus is compiled (the function is the largest FFCx-owned surface without an E1 contract).

Postconditions per modified terminal mt with (element, avg, local_derivatives, flat_component) =
get_modified_terminal_element(mt) [callee under its own E1 contract] and (component_element, c_offset, stride) =
element.get_component_element(flat_component) [basix.ufl, external]:

  T-OFFSET  ref.offset == c_offset + (element.dim if mt.restriction == '-' and mt.terminal is a FormArgument else 0)
            ref.block_size == stride
  T-PERM    ref.values.shape[0] is 1 or the number of facet permutation codes of the cell (2 / 6 / 8), and > 1 only where
            the function is specified to permute
  T-VALUE   ref.values (axes of extent 1 broadcast) equals, within the clamping tolerance, the independent tabulation
            component_element.tabulate(...)[derivative] at the points of entity e under permutation code p
            (entity point maps from basix.geometry/topology; permutations of the rule's points by
            permute_quadrature_interval/triangle/quadrilateral, callees under their own E1 contracts, p = 2*rot + ref)
  T-FACTORS with sum factorisation: the outer product of the 1D factor tables (in tensor_permutation order) equals values

Skipped (counted): averaged tables, mixed-dimensional (codim > 0) tables, elements whose tabulate() rejects the points."""
from __future__ import annotations

import multiprocessing as mp
import traceback

import numpy as np

from kernelvc import corpus as C

NPERM = {("triangle",): 2, ("quadrilateral",): 2, ("tetrahedron",): 6, ("hexahedron",): 8}


def _entity_points(cellname, entity_type, e, pts):
    import basix

    ct = getattr(basix.CellType, cellname)
    g = np.array(basix.geometry(ct), dtype=float)
    topo = basix.topology(ct)
    tdim = len(topo) - 1
    if entity_type == "cell":
        return np.asarray(pts, dtype=float)
    if entity_type == "vertex":
        return np.array([g[e]])
    d = tdim - 1 if entity_type == "facet" else tdim - 2
    if d == 0:
        return np.array([g[topo[0][e][0]]])
    vs = g[list(topo[d][e])]
    T = np.array([vs[i] - vs[0] for i in range(1, d + 1)]).T
    return np.array([vs[0] + T @ np.asarray(X, dtype=float) for X in pts])


def _num_entities(cellname, entity_type):
    import basix

    topo = basix.topology(getattr(basix.CellType, cellname))
    tdim = len(topo) - 1
    return {"cell": 1, "facet": len(topo[tdim - 1]), "vertex": len(topo[0]), "ridge": len(topo[tdim - 2]) if tdim >= 2 else 0}[entity_type]


def _check_call(args, kwargs, result, out):
    import basix
    import ufl

    import ffcx.ir.elementtables as ET

    names = ["quadrature_rule", "cell", "integral_type", "entity_type", "modified_terminals", "existing_tables", "use_sum_factorization", "is_mixed_dim", "rtol", "atol"]
    a = dict(zip(names, args))
    a.update(kwargs)
    rule, cell, it, et = a["quadrature_rule"], a["cell"], a["integral_type"], a["entity_type"]
    atol = max(float(a.get("atol", ET.default_atol)), 1e-9)
    cellname = cell.cellname
    tdim = cell.topological_dimension
    for mt in a["modified_terminals"]:
        res = ET.get_modified_terminal_element(mt)
        if not res:
            continue
        ref = result.get(mt)
        tag = f"{type(mt.terminal).__name__} r={mt.restriction} ld={tuple(mt.local_derivatives)} fc={res[3]} {it}/{et}/{cellname}"
        if ref is None:
            out.append(("T-PRESENT", False, tag, "no table reference for a terminal that has an element"))
            continue
        element, avg, ld, fc = res
        try:
            ce, c_off, stride = element.get_component_element(fc)
        except Exception as e:  # noqa: BLE001
            out.append(("skip", None, tag, f"get_component_element: {type(e).__name__}"))
            continue
        cell_off = element.dim if (mt.restriction == "-" and isinstance(mt.terminal, ufl.classes.FormArgument)) else 0
        out.append(("T-OFFSET", bool(ref.offset == c_off + cell_off and ref.block_size == stride), tag,
                    f"offset {ref.offset} block_size {ref.block_size}; expected {c_off}+{cell_off}, {stride}"))
        codim = tdim - element.cell.topological_dimension
        permuting = (it in ("interior_facet", "ridge") or (a["is_mixed_dim"] and codim == 0) or (it == "expression" and et == "facet"))
        nperm_spec = 1
        if permuting and et == "facet" and not (tdim == 1 or codim == 1):
            nperm_spec = {2: 2, 3: {"tetrahedron": 6, "hexahedron": 8}.get(cellname, 1)}.get(tdim, 1)
        elif permuting and et == "ridge" and not (tdim < 3 or codim == 2):
            nperm_spec = 2
        P = ref.values.shape[0]
        out.append(("T-PERM", bool(P in (1, nperm_spec)), tag, f"permutation axis {P}, specified 1 or {nperm_spec}"))
        if avg or codim != 0:
            out.append(("skip", None, tag, "averaged or mixed-dimensional table"))
            continue
        # independent tabulation
        try:
            nd = int(sum(ld))
            didx = basix.index(*ld) if len(ld) else 0
            ne = _num_entities(cellname, et)
            exp = []
            for p in range(nperm_spec):
                pts = np.asarray(rule.points, dtype=float)
                if nperm_spec > 1:
                    ref_, rot = p % 2, p // 2
                    if pts.shape[1] == 1:
                        pts = ET.permute_quadrature_interval(pts, ref_)
                    elif cellname == "tetrahedron":
                        pts = ET.permute_quadrature_triangle(pts, ref_, rot)
                    else:
                        pts = ET.permute_quadrature_quadrilateral(pts, ref_, rot)
                rows = []
                for e in range(ne):
                    X = _entity_points(cellname, et, e, pts)
                    t = ce.tabulate(nd, X)[didx]  # [point][dof]
                    rows.append(t)
                exp.append(rows)
            exp = np.array(exp)  # [p][e][q][d]
        except Exception as e:  # noqa: BLE001
            out.append(("skip", None, tag, f"independent tabulation failed: {type(e).__name__}: {str(e)[:80]}"))
            continue
        act = np.asarray(ref.values)
        ok = act.ndim == 4 and all(x in (1, y) for x, y in zip(act.shape, exp.shape))
        detail = f"shape {act.shape} vs {exp.shape}"
        if ok:
            diff = np.abs(np.broadcast_to(act, exp.shape) - exp)
            tol = 10 * atol + 1e-9 * np.abs(exp)
            ok = bool((diff <= tol).all())
            if not ok:
                k = np.unravel_index(np.argmax(diff - tol), diff.shape)
                detail = f"[perm,entity,point,dof]={tuple(int(i) for i in k)}: table {np.broadcast_to(act, exp.shape)[k]} tabulation {exp[k]} ({ref.name}, ttype {ref.ttype}, shape {act.shape})"
        out.append(("T-VALUE", ok, tag, detail))
        if ref.tensor_factors is not None:
            try:
                fs = [np.asarray(f.values)[0, 0] for f in ref.tensor_factors]  # [q_i][d_i]
                full = fs[0]
                for f in fs[1:]:
                    full = np.einsum("ab,cd->acbd", full, f).reshape(full.shape[0] * f.shape[0], full.shape[1] * f.shape[1])
                tgt = np.broadcast_to(act, exp.shape)[0, 0]
                okf = full.shape == tgt.shape and np.allclose(full, tgt, atol=1e-8)
                out.append(("T-FACTORS", bool(okf), tag, f"outer product of {[f.name for f in ref.tensor_factors]} vs {ref.name}"))
            except Exception as e:  # noqa: BLE001
                out.append(("skip", None, tag, f"tensor factors: {type(e).__name__}: {str(e)[:80]}"))


def _one(job):
    rel, opts = job
    import ffcx.ir.elementtables as ET
    import ffcx.ir.integral as II

    real = ET.build_optimized_tables
    out = []

    def checked(*args, **kwargs):
        result = real(*args, **kwargs)
        try:
            _check_call(args, kwargs, result, out)
        except Exception as e:  # noqa: BLE001
            out.append(("crash", None, "", f"{type(e).__name__}: {e}\n{traceback.format_exc()[-800:]}"))
        return result

    II.build_optimized_tables = checked
    try:
        C.build_kernels(rel, opts)
    except Exception as e:  # noqa: BLE001
        return dict(file=rel, opts=opts, error=f"{type(e).__name__}: {e}", tb=traceback.format_exc()[-1200:])
    finally:
        II.build_optimized_tables = real
    return dict(file=rel, opts=opts, results=out)


_cache = {}


def run_all(tier):
    if tier in _cache:
        return _cache[tier]
    jobs = (list(C.QUICK) if tier == "quick" else C.demo_files()) + C.corpus_files()
    with mp.get_context("fork").Pool(min(16, len(jobs))) as pool:
        res = pool.map(_one, jobs, chunksize=1)
    _cache[tier] = res
    return res


def run_e3tables(rep, tier, seed, clauses=("T-OFFSET", "T-PERM", "T-VALUE", "T-FACTORS", "T-PRESENT")):
    n = {}
    skipped = {}
    for f in run_all(tier):
        if "error" in f:
            rep.error(f"E3 tables {f['file']}", f["error"] + "\n" + f.get("tb", ""))
            continue
        bad = {}
        for clause, ok, tag, detail in f["results"]:
            if clause == "skip":
                skipped[detail.split(":")[0]] = skipped.get(detail.split(":")[0], 0) + 1
                continue
            if clause == "crash":
                rep.undecide(f"E3 tables {f['file']}", detail)
                continue
            if clause not in clauses:
                continue
            n[clause] = n.get(clause, 0) + 1
            if not ok:
                bad.setdefault(clause, []).append((tag, detail))
        for clause in clauses:
            cnt = sum(1 for c, _, _, _ in f["results"] if c == clause)
            if not cnt:
                continue
            name = f"build_optimized_tables calls while compiling {f['file']}{f['opts'] or ''}: {clause} holds for all {cnt} table references"
            if clause not in bad:
                rep.ob(name, "proved", "runtime-contract", "bounded")
            else:
                tag, detail = bad[clause][0]
                rep.violation(f"tables:{f['file']}:{clause}", name + f" fails for {len(bad[clause])}, e.g. {tag}: {detail}",
                              dict(obligation=name, failing=[dict(terminal=t, detail=d) for t, d in bad[clause][:5]], corpus_file=f["file"], options=f["opts"],
                                   how="python -m checks.e3tables <corpus file> [options]"))
    rep.extra["table_references_checked"] = n
    rep.extra["table_references_skipped"] = skipped
    if sum(n.values()) < 50:
        rep.error("E3 tables", f"only {sum(n.values())} clause instances checked (vacuity guard)")


if __name__ == "__main__":
    import sys

    rel = sys.argv[1]
    opts = eval(sys.argv[2]) if len(sys.argv) > 2 else {}  # noqa: S307
    r = _one((rel, opts))
    if "error" in r:
        print(r["error"], r.get("tb"))
    else:
        import collections

        cnt = collections.Counter((c, ok) for c, ok, _, _ in r["results"])
        print(dict(cnt))
        for c, ok, tag, detail in r["results"]:
            if ok is False or c == "crash":
                print(c, tag, detail)
        print(collections.Counter(d.split(":")[0] for c, ok, t, d in r["results"] if c == "skip"))
