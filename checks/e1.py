"""Run the E1 contracts carrying a property and feed a Report."""
from __future__ import annotations

import hashlib
import multiprocessing as mp
import os
import traceback

from pyvc import interp as pinterp
from pyvc.contract import replay, verify
from pyvc.interp import func_node


def _source_sha(c):
    try:
        import ast

        node = c.fn.node() if getattr(c.fn, "is_fragment", False) else func_node(c.fn)
        return hashlib.sha1(ast.unparse(node).encode()).hexdigest()[:16]
    except Exception as e:  # noqa: BLE001
        return f"anchor-missing: {e}"


def _work(args):
    """Verify one contract in a worker. Returns a picklable summary."""
    name, mutant, tier = args
    from contracts.registry import build

    try:
        reg = build(tier)
        c = reg.by_name[name]
        if mutant is not None:
            is_frag = getattr(c.fn, "is_fragment", False)
            path = c.fn.file if is_frag else c.fn.__code__.co_filename
            txt = open(path).read()
            old, new = mutant
            if is_frag:
                from pyvc.interp import find_def

                node = find_def(path, c.target.split("::")[1])
            else:
                node = func_node(c.fn)
            lines = txt.splitlines(keepends=True)
            seg = "".join(lines[node.lineno - 1 : node.end_lineno])
            if seg.count(old) != 1:
                return dict(name=name, error=f"mutant anchor matches {seg.count(old)} times: {old[:60]!r}")
            pinterp.source_overrides[path] = (
                "".join(lines[: node.lineno - 1]) + seg.replace(old, new) + "".join(lines[node.end_lineno :])
            )
        vcs, st = verify(c, reg, want_smt_sample=True)
        out = []
        for v in vcs:
            d = dict(contract=v.contract, kind=v.kind, clause=v.clause, status=v.status, backend=v.backend,
                     path=v.path, time_s=v.time_s, reason=str(v.detail.get("reason", ""))[:800],
                     tb=v.detail.get("tb", ""))
            if v.status == "refuted" and mutant is None:
                try:
                    verdict, info = replay(c, reg, v)
                except Exception as e:  # noqa: BLE001
                    verdict, info = "no-input", dict(reason=f"replay crashed: {e}", tb=traceback.format_exc()[-800:])
                d["replay_verdict"] = verdict
                d["replay_info"] = info
                d["model"] = str(v.detail.get("model"))[:1500]
                ctx = v.detail.get("ctx")
                d["labels"] = [f"{lab}={ch}" for ch, n, lab in ctx.decisions] if ctx is not None else []
            out.append(d)
        return dict(name=name, vcs=out, stats={k: (sorted(v) if isinstance(v, set) else v) for k, v in st.items()},
                    sha=_source_sha(c), target=c.target, bounded=c.bounded, note=c.note)
    except Exception as e:  # noqa: BLE001
        return dict(name=name, error=f"{type(e).__name__}: {e}", tb=traceback.format_exc()[-2000:])
    finally:
        pinterp.source_overrides.clear()


def run_e1(rep, prop, tier, only=None, procs=None):
    from contracts.registry import build

    reg = build(tier)
    from contracts import lnodes_shapes

    probs = lnodes_shapes.check_shapes()
    for p in probs:
        rep.error("lnodes-model", p)
    names = [n for n, c in reg.by_name.items() if prop in c.properties and (only is None or n in only)]
    for desc, f in getattr(reg, "alias_checks", []):
        pass
    jobs = [(n, None, tier) for n in names]
    procs = procs or min(16, max(1, len(jobs)))
    with mp.get_context("fork").Pool(procs) as pool:
        results = pool.map(_work, jobs, chunksize=1)
    for r in results:
        consume(rep, prop, r)
    # sensitivity self-test: seeded in-memory mutants must be refuted (thorough tier)
    if tier == "thorough":
        mjobs = [(n, m, tier) for n in names for m in reg.by_name[n].mutants]
        if mjobs:
            with mp.get_context("fork").Pool(min(16, len(mjobs))) as pool:
                mres = pool.map(_work, mjobs, chunksize=1)
            killed = 0
            for (n, m, _t), r in zip(mjobs, mres):
                if "error" in r:
                    rep.error(f"selftest:{n}", r["error"])
                    continue
                if any(v["status"] != "proved" for v in r["vcs"]):
                    killed += 1  # refuted, or (prove mode) no longer provable
                else:
                    rep.error(f"selftest:{n}", f"seeded mutant survived: {m[0][:50]!r} -> {m[1][:50]!r}")
            rep.extra["seeded_mutants_killed"] = f"{killed}/{len(mjobs)}"
    return reg


def consume(rep, prop, r):
    name = r["name"]
    if "error" in r:
        if "anchor" in r["error"].lower() or "AttributeError" in r["error"]:
            rep.undecide(name, r["error"])
        else:
            rep.error(name, r["error"] + "\n" + r.get("tb", ""))
        return
    st = r["stats"]
    rep.function(r["target"], r["sha"], note=(r["note"] or None))
    klass = "proved" if not (r["bounded"] or st["bounds"]) else f"proved<={r['bounded'] or ';'.join(st['bounds'])}"
    if st["normal"] == 0 and not any(v["kind"] == "engine" for v in r["vcs"]):
        rep.error(name, "vacuous: no path reaches a normal return under the precondition")
    for n in st["notes"]:
        rep.assume(f"{name}: {n}")
    if st.get("smt"):
        rep.samples.append(st["smt"]) if len(rep.samples) < 3 else None
    for v in r["vcs"]:
        oname = f"{name} :: {v['kind']} :: {v['clause']} @path {v['path']}"
        if v["status"] == "proved":
            rep.ob(oname, "proved", v["backend"], klass, v["time_s"])
        elif v["status"] == "refuted":
            verdict = v.get("replay_verdict")
            info = v.get("replay_info", {})
            key = f"{name}#{v['clause']}"
            if verdict == "violation":
                rep.violation(key, f"contract clause refuted and replayed on the real function: {v['clause']}",
                              dict(function=r["target"], obligation=v["clause"], path=v["path"], labels=v.get("labels"),
                                   native=info, model=v.get("model"), how_to_replay="./check %s --replay <this file>" % prop))
            elif verdict == "no-input":
                rep.violation(key, f"contract clause refuted (no native input could be built): {v['clause']}",
                              dict(function=r["target"], obligation=v["clause"], path=v["path"], labels=v.get("labels"),
                                   solver_output=v.get("model"), reason=info), no_input=True)
            else:
                rep.undecide(oname, f"countermodel does not replay on the real code (encoding imprecise): {info}")
        else:
            if "anchor missing" in v["reason"]:
                rep.undecide(oname, v["reason"])
            else:
                rep.undecide(oname, v["reason"] + " " + v.get("tb", "")[-600:])
