from checks.e3num import run_e3num
from checks.generic import run_components

ASSUME = ["A-INT: Python/numpy ints treated as mathematical integers", "A-FLOAT: floats treated as reals"]


def run(tier, seed):
    return run_components("C04", tier, seed, ['e1', 'e2', 'e3desc', run_e3num], ASSUME,
                          ["kernelvc (E2 walker; scoping mirrors C/formatter.py)", "UFL form data as oracle for extents"])
