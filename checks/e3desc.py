"""E3: descriptor contracts evaluated on every corpus module (bounded: corpus of programs)."""
from __future__ import annotations

import multiprocessing as mp
import os
import traceback

from kernelvc import corpus as C
from runtime import descriptors as D

PROP_OF = [
    ("original_coefficient_positions", {"C05", "C06", "C04"}),
    ("enabled_coefficients", {"C05"}),
    ("num_coefficients", {"C05", "C06", "C04"}),
    ("slot", {"C09"}),
    ("alias", {"C20", "C06"}),
    ("expr", {"C04"}),
    ("header", {"C20"}),
    ("numba", {"C18"}),
    ("", {"C06"}),
]


def props_of(name):
    out = set()
    for key, ps in PROP_OF:
        if key and key in name:
            out |= ps
    if not out or (": rank" in name or "constant" in name or "offsets" in name or "ids" in name or "kernel" in name
                   or "finite_element" in name or "form object" in name or "coordinate_element_hash" in name
                   or "cell-type tag" in name):
        out |= {"C06"}
    return out


def _one(job):
    rel, opts = job
    import ufl.algorithms

    from ffcx.analysis import analyze_ufl_objects
    from ffcx.compiler import compile_ufl_objects
    from ffcx.options import get_options

    res = []
    try:
        options = get_options(dict(opts))
        path = C.resolve(rel)
        ufd = ufl.algorithms.load_ufl_file(path)
        objs = ufd.forms + ufd.expressions + ufd.elements
        prefix = "v"
        code, suffixes = compile_ufl_objects(objs, options=options, object_names=ufd.object_names, namespace=prefix)
        analysis = analyze_ufl_objects(objs, options["scalar_type"])
        hdr, src = code[0], code[1]
        parsed = D.parse_c(src)
        tag = f"{rel}{_ok(opts)}"

        def report(name, ok, detail=None):
            res.append((name, bool(ok), detail or {}))

        kof = D.kernels_of_factory(parsed)
        for fi, fd in enumerate(analysis.form_data):
            exp = D.expected_form(fd, fi, prefix, ufd.object_names, str(options["part"]), kof)
            D.check_form(parsed, exp, report, f"{tag} form{fi}")
        D.check_integral_objects(parsed, analysis, prefix, options, report, tag)
        D.check_expressions(parsed, analysis, prefix, ufd.object_names, report, tag)
        # header/source pairing (C20): every extern object of the header is defined in the source, same kind
        for kind, star, name in D.parse_h(hdr):
            if star:
                ok = name in parsed["aliases"] and parsed["aliases"][name][0] == kind
            else:
                ok = name in parsed["structs"] and parsed["structs"][name]["kind"] == kind
            report(f"{tag}: header: extern ufcx_{kind}{'*' if star else ''} {name[:30]} is defined in the source", ok)
        defined = set(parsed["structs"]) | set(parsed["aliases"])
        declared = {n for _, _, n in D.parse_h(hdr)}
        report(f"{tag}: header: every object defined in the source is declared in the header", defined <= declared,
               dict(missing=sorted(defined - declared)[:5]))
    except Exception as e:  # noqa: BLE001
        return dict(file=rel, opts=opts, error=f"{type(e).__name__}: {e}", tb=traceback.format_exc()[-1500:])
    import re

    # every FILE-SCOPE definition of the source, with multiplicity (the dict of parsed objects would hide duplicates):
    # definitions are recognised on lines at brace depth 0
    names = []
    depth = 0
    pat = re.compile(r"^(?:[A-Za-z_][\w ]*?[\w\*]\s+\**)(\w+)\s*(?:\[[^\]]*\])*\s*(?:=|\()")
    for line in src.splitlines():
        if depth == 0 and not line.startswith(("#", "//", "typedef", "extern")):
            m = pat.match(line)
            if m:
                names.append(m.group(1))
        depth += line.count("{") - line.count("}")
    return dict(file=rel, opts=opts, results=res, names=names)


def _ok(opts):
    return "" if not opts else "[" + ",".join(f"{k}={v}" for k, v in sorted(opts.items())) + "]"


_cache = {}


def run_all(tier):
    if tier in _cache:
        return _cache[tier]
    jobs = (list(C.QUICK) if tier == "quick" else C.demo_files()) + C.corpus_files()
    with mp.get_context("fork").Pool(min(16, len(jobs))) as pool:
        res = pool.map(_one, jobs, chunksize=1)
    _cache[tier] = res
    return res


def run_e3desc(rep, prop, tier):
    n = 0
    for f in run_all(tier):
        if "error" in f:
            rep.error(f"E3 descriptors {f['file']}{_ok(f['opts'])}", f["error"] + "\n" + f.get("tb", ""))
            continue
        for name, ok, detail in f["results"]:
            if prop not in props_of(name):
                continue
            n += 1
            if ok:
                rep.ob(f"E3 {name}", "proved", "runtime-contract", "bounded")
            else:
                rep.violation(f"E3:{name}", f"descriptor contract violated on a corpus module: {name}",
                              dict(obligation=name, detail=detail, corpus_file=f["file"], options=f["opts"],
                                   how_to_replay=f"python -m ffcx on {f['file']} with options {f['opts']} and inspect the descriptor"))
    rep.extra["descriptor_contract_evaluations"] = n
    return n
