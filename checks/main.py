import argparse
import importlib
import json
import os
import sys
import traceback


def main():
    ap = argparse.ArgumentParser()
    ap.add_argument("prop")
    ap.add_argument("--tier", default=os.environ.get("VERIF_TIER", "quick"))
    ap.add_argument("--replay", default=None)
    a = ap.parse_args()
    seed = int(os.environ.get("VERIF_SEED", "0"))
    tier = a.tier if a.tier in ("quick", "thorough") else "quick"
    try:
        mod = importlib.import_module(f"checks.{a.prop}")
    except ModuleNotFoundError:
        print(f"no check for {a.prop}")
        return 3
    if a.replay:
        from checks import replaytool

        return replaytool.replay(a.prop, a.replay)
    try:
        return mod.run(tier, seed)
    except Exception:  # noqa: BLE001
        traceback.print_exc()
        print(f"[{a.prop}] checker crashed")
        return 3


if __name__ == "__main__":
    sys.exit(main())
