"""E3 (bounded): optimizer.optimize preserves the values written by a code list - checked on every call made while the
corpus kernels are generated, by exact rational evaluation of the code before and after on pseudo-random inputs
(polynomial identity testing; two input draws per call)."""
from __future__ import annotations

import copy
import multiprocessing as mp
import traceback

from kernelvc import corpus as C
from runtime.lnodes_eval import Eval


def _state(code, seed):
    ev = Eval(seed)
    ev.run(code)
    arrays = {k: {i: v for i, v in d.items() if i != "__zero__"} for k, d in ev.arrays.items() if not k.startswith("temp_")}
    return ev.A, ev.vars, arrays


def _one(job):
    rel, opts = job
    import ffcx.codegeneration.expression_generator as EG
    import ffcx.codegeneration.integral_generator as IG
    import ffcx.codegeneration.optimizer as O

    results = []
    real = O.optimize

    def checked(code, quadrature_rule):
        before = copy.deepcopy(code)
        out = real(code, quadrature_rule)
        try:
            ok = True
            detail = {}
            for seed in (1, 2):
                a0, v0, r0 = _state(before, seed)
                a1, v1, r1 = _state(copy.deepcopy(out), seed)
                if a0 != a1:
                    ok = False
                    k = next(k for k in set(a0) | set(a1) if a0.get(k) != a1.get(k))
                    detail = dict(what="A differs", index=str(k), before=str(a0.get(k)), after=str(a1.get(k)))
                    break
                common = {k for k in v0 if k in v1}
                bad = [k for k in common if v0[k] != v1[k]]
                missing = [k for k in v0 if k not in v1]
                if bad or missing:
                    ok = False
                    detail = dict(what="scalar outputs differ", names=(bad + missing)[:5])
                    break
                if r0 != r1:
                    ok = False
                    detail = dict(what="array outputs differ", names=[k for k in set(r0) | set(r1) if r0.get(k) != r1.get(k)][:5])
                    break
            results.append((ok, detail, len(before)))
        except Exception as e:  # noqa: BLE001
            results.append((None, dict(error=f"{type(e).__name__}: {e}"), len(before)))
        return out

    IG.optimize = checked
    EG_has = hasattr(EG, "optimize")
    if EG_has:
        EG.optimize = checked
    try:
        C.build_kernels(rel, opts)
    except Exception as e:  # noqa: BLE001
        return dict(file=rel, opts=opts, error=f"{type(e).__name__}: {e}", tb=traceback.format_exc()[-1200:])
    finally:
        IG.optimize = real
        if EG_has:
            EG.optimize = real
    return dict(file=rel, opts=opts, results=results)


_cache = {}


def run_all(tier):
    if tier in _cache:
        return _cache[tier]
    jobs = (list(C.QUICK) if tier == "quick" else C.demo_files()) + C.corpus_files()
    with mp.get_context("fork").Pool(min(16, len(jobs))) as pool:
        res = pool.map(_one, jobs, chunksize=1)
    _cache[tier] = res
    return res


def run_e3opt(rep, tier, seed):
    n = 0
    for f in run_all(tier):
        if "error" in f:
            rep.error(f"E3 optimizer {f['file']}", f["error"] + "\n" + f.get("tb", ""))
            continue
        for k, (ok, detail, size) in enumerate(f["results"]):
            n += 1
            name = f"optimize() call #{k} while generating {f['file']}{f['opts'] or ''}: values written are unchanged"
            if ok:
                rep.ob(name, "proved", "runtime-contract", "bounded")
            elif ok is None:
                rep.undecide(name, detail.get("error"))
            else:
                rep.violation(f"optimize:{f['file']}:{detail.get('what')}", name + f" fails: {detail}", dict(obligation=name, detail=detail, corpus_file=f["file"], options=f["opts"]))
    rep.extra["optimizer_calls_validated"] = n
