"""Shared reporting: obligations, known findings, evidence file, exit codes.

exit 0  property held on everything explored (KNOWN-FINDING lines for listed findings)
exit 1  VIOLATION property=<id> replay=<path> [no-failing-input-found]
exit 2  undecided (anchor missing, solver unknown, countermodel that does not replay)
exit 3  checker error / failed self-test
"""

from __future__ import annotations

import fnmatch
import json
import os
import sys
import time
import traceback

ROOT = os.path.dirname(os.path.dirname(os.path.abspath(__file__)))
REPO = os.environ.get("FFCX_REPO", "/repo")


def load_known():
    p = os.path.join(ROOT, "known_findings.json")
    if not os.path.exists(p):
        return dict(findings=[], fixed=[])
    return json.load(open(p))


class Report:
    def __init__(self, prop, tier, seed, level="proof"):
        self.prop = prop
        self.tier = tier
        self.seed = seed
        self.level = level
        self.t0 = time.time()
        self.obl = []  # dicts: name, status, backend, klass, time_s, detail
        self.violations = []  # dicts: key, what, replay, no_input
        self.undecided = []
        self.errors = []
        self.functions = []
        self.assumptions = []
        self.trusted = []
        self.samples = []
        self.extra = {}
        self.known = load_known()
        self.known_hits = []
        self.bounded = []  # bounded (never counted as proved) results
        self.solver_time = 0.0

    # -- recording ----------------------------------------------------------------------
    def function(self, name, sha=None, note=None):
        self.functions.append(dict(function=name, source_sha1=sha, note=note))

    def ob(self, name, status, backend, klass="proved", time_s=0.0, sample=None):
        """klass: proved | proved<=N | exhaustive | bounded"""
        self.obl.append(dict(name=name, status=status, backend=backend, klass=klass, time_s=time_s))
        self.solver_time += time_s
        if sample is not None and len(self.samples) < 6:
            self.samples.append(sample)

    def violation(self, key, what, replay_obj, no_input=False):
        """A refuted obligation. replay_obj is written to replays/. Known findings are matched by key."""
        for f in self.known.get("findings", []):
            if f["property"] == self.prop and fnmatch.fnmatchcase(key, f["key"]):
                if any(h["key"] == key for h in self.known_hits):
                    return "known"
                self.known_hits.append(dict(key=key, finding=f["key"], what=f.get("what", what)))
                return "known"
        if any(v["key"] == key for v in self.violations):
            return "dup"
        os.makedirs(os.path.join(ROOT, "replays"), exist_ok=True)
        safe = "".join(ch if ch.isalnum() or ch in "-_." else "_" for ch in key)[:120]
        path = os.path.join(ROOT, "replays", f"{self.prop}-{safe}.json")
        replay_obj = dict(replay_obj)
        replay_obj.update(property=self.prop, key=key, what=what, no_failing_input_found=no_input)
        with open(path, "w") as f:
            json.dump(replay_obj, f, indent=1, default=str)
        self.violations.append(dict(key=key, what=what, replay=path, no_input=no_input))
        return "new"

    def undecide(self, name, reason):
        self.undecided.append(dict(name=name, reason=str(reason)[:600]))

    def error(self, name, reason):
        self.errors.append(dict(name=name, reason=str(reason)[:1500]))

    def assume(self, *texts):
        for t in texts:
            if t not in self.assumptions:
                self.assumptions.append(t)

    def trust(self, *texts):
        for t in texts:
            if t not in self.trusted:
                self.trusted.append(t)

    # -- output -----------------------------------------------------------------------------
    def finish(self):
        wall = time.time() - self.t0
        proved = [o for o in self.obl if o["status"] == "proved" and o["klass"] in ("proved", "exhaustive")]
        counted = [o for o in self.obl if o["klass"] in ("proved", "exhaustive")]
        by_backend = {}
        for o in proved:
            by_backend[o["backend"]] = by_backend.get(o["backend"], 0) + 1
        bounded = [o for o in self.obl if o["klass"] not in ("proved", "exhaustive")]
        bounded_by = {}
        for o in bounded:
            k = f"{o['klass']}:{o['status']}"
            bounded_by[k] = bounded_by.get(k, 0) + 1
        cov = dict(
            obligations=len(counted),
            discharged=len(proved),
            discharged_by_backend=by_backend,
            checker_cmd=f"./check {self.prop} --tier {self.tier}",
            trusted_base=self.trusted,
            functions_under_contract=self.functions,
            bounded_or_structurally_bounded=bounded_by,
            solver_time_s=round(self.solver_time, 3),
            samples=self.samples or ["(none)"],
            known_findings=self.known_hits,
            undecided=self.undecided,
            errors=self.errors,
            explanation="obligations = verification conditions generated on this run from /repo's current source "
            "(E1: per path and clause; E2: per generated kernel; finite: per enumerated case); discharged = those "
            "whose negation was unsat (z3/cvc5), that evaluated to True on a fully concrete path (eval), or that "
            "belong to a completely enumerated finite domain (exhaustive-finite). Bounded results are listed "
            "separately and not counted.",
        )
        cov.update(self.extra)
        ev = dict(
            property_id=self.prop,
            tier=self.tier,
            seed=self.seed,
            level=self.level,
            coverage=cov,
            assumptions=self.assumptions,
            wall_s=round(wall, 2),
            violations=len(self.violations),
        )
        os.makedirs(os.path.join(ROOT, "evidence"), exist_ok=True)
        with open(os.path.join(ROOT, "evidence", f"{self.prop}.json"), "w") as f:
            json.dump(ev, f, indent=1, default=str)
        for h in self.known_hits:
            print(f"KNOWN-FINDING: property={self.prop} {h['finding']} :: {h['what']}")
        for v in self.violations:
            tail = " no-failing-input-found" if v["no_input"] else ""
            print(f"VIOLATION property={self.prop} replay={v['replay']}{tail}")
            print(f"  {v['key']}: {v['what']}")
        print(
            f"[{self.prop}] obligations={len(counted)} discharged={len(proved)} {by_backend} bounded={bounded_by} "
            f"violations={len(self.violations)} known={len(self.known_hits)} undecided={len(self.undecided)} "
            f"errors={len(self.errors)} wall={wall:.1f}s"
        )
        for u in self.undecided[:20]:
            print(f"  UNDECIDED {u['name']}: {u['reason'][:300]}")
        for e in self.errors[:20]:
            print(f"  ERROR {e['name']}: {e['reason'][:600]}")
        if self.violations:
            return 1
        if self.errors:
            return 3
        if self.undecided:
            return 2
        if len(counted) == 0 and not bounded:
            print("  ERROR: zero obligations generated (vacuous run)")
            return 3
        return 0
