from checks import finite
from checks.generic import run_components

ASSUME = ["A-INT", "C semantics of restrict / automatic storage are trusted; E2 is bounded over programs by the corpus",
          "licm storage check is bounded over the listed loop sizes (1 .. 10^6)"]


def run(tier, seed):
    return run_components("C07", tier, seed, ["e1", finite.c07_licm_storage, "e2"], ASSUME,
                          ["kernelvc (E2 walker; scoping mirrors C/formatter.py)"])
