from checks import finite
from checks.generic import run_components

ASSUME = ["exactness of basix' quadrature rules and UFL's degree estimation are external",
          "E2 (rule-consistency of every contribution to A) is bounded over programs by the corpus"]


def run(tier, seed):
    return run_components("C11", tier, seed, ["e1", finite.c11_rule_selection, "e2"], ASSUME, ["kernelvc (E2)"])
