from checks import finite
from checks.e3num import run_e3num
from checks.generic import run_components

ASSUME = ["E3 numeric (kernel executed on pseudo-random affine simplex data vs an independent UFL/basix reference) is bounded: corpus forms, fixed seeds, rtol 1e-9", "exactness of basix' quadrature rules and UFL's degree estimation are external",
          "E2 (rule-consistency of every contribution to A) is bounded over programs by the corpus"]


def run(tier, seed):
    return run_components("C11", tier, seed, ["e1", finite.c11_rule_selection, "e2", run_e3num], ASSUME, ["kernelvc (E2)"])
