from checks.e3tables import run_e3tables
from checks.generic import run_components

ASSUME = ["E3 tables: run-time contract on build_optimized_tables (offsets, permutation axis, values against an independent basix tabulation) is bounded by the corpus calls", "A-INT: Python/numpy ints treated as mathematical integers", "A-FLOAT: floats treated as reals"]


def run(tier, seed):
    return run_components("C08", tier, seed, ['e1', 'e2', lambda rep, t, sd: run_e3tables(rep, t, sd, ("T-PERM", "T-OFFSET"))], ASSUME,
                          ["kernelvc (E2 walker; scoping mirrors C/formatter.py)", "UFL form data as oracle for extents"])
