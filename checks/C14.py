from checks.common import Report
from checks.jit_replay import cached_objects_order
from checks.jitfx import run_jit


def run(tier, seed):
    rep = Report("C14", tier, seed)
    run_jit(rep, "C14", tier, seed)
    cached_objects_order(rep, tier, seed)
    rep.trust("pyvc effect-trace mode (path enumeration over the real source of jit.py)", "cffi, importlib, the C compiler")
    return rep.finish()
