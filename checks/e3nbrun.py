"""E3 numba execution (bounded, C18): the Python text the numba backend emits for a kernel is EXECUTED (CPython, with a stub
`numba` module whose carray() is a numpy view) and must produce the same tensor as the kernel's LNodes program interpreted
with C semantics (runtime/lnodes_float.py), on identical pseudo-random inputs.  This decides, on the corpus, what the
formatter round trips cannot: that the numba formatter's spelling of math functions, literals, declarations and loops
MEANS the same computation (e.g. `np.power`, `np.minimum`, Bessel functions, integer division, array initialisers)."""
from __future__ import annotations

import math
import multiprocessing as mp
import traceback
import types

import numpy as np

from kernelvc import corpus as C


def _stub_numba():
    m = types.ModuleType("numba")

    def carray(a, shape, dtype=None):
        n = int(np.prod(shape)) if not isinstance(shape, int) else int(shape)
        return np.asarray(a).reshape(-1)[:n]

    m.carray = carray
    m.cfunc = lambda *a, **k: (lambda f: f)
    m.njit = lambda *a, **k: (lambda f: f)
    m.types = types.SimpleNamespace()
    return m


def _one(job):
    rel, opts, seed = job
    from checks import e3meta
    from ffcx.codegeneration.numba import expression as NE
    from ffcx.codegeneration.numba import integral as NI

    out = []
    try:
        kernels, ir, analysis, ufd = C.build_kernels(rel, opts)
    except Exception as e:  # noqa: BLE001
        return dict(file=rel, opts=opts, error=f"{type(e).__name__}: {e}", tb=traceback.format_exc()[-1200:])
    for k, kn in enumerate(kernels):
        name = kn.name
        try:
            options = dict(kn.options, language="numba")
            if kn.kind == "integral":
                (text,) = NI.generator(kn.ir, kn.domain, options)
                fname = f"tabulate_tensor_{kn.ir.expression.name}_{kn.domain.name}"
            else:
                (text,) = NE.generator(kn.ir, options)
                fname = f"tabulate_tensor_{kn.ir.expression.name}"
            ns = dict(numba=_stub_numba(), np=np, math=math)
            # the template refers to enums defined at module level by the file template; classes are not needed here
            src = text[: text.index("\nclass ")] if "\nclass " in text else text
            exec(compile(src, f"<numba:{fname}>", "exec"), ns)  # noqa: S102
            fn = ns.get(fname) or next(v for n, v in ns.items() if n.startswith("tabulate_tensor_"))
            rng = np.random.default_rng(seed + k)
            cm = np.issubdtype(np.dtype(kn.options["scalar_type"]), np.complexfloating)
            dt = complex if cm else float
            comps = []
            ents = range(min(kn.ext.n_entities, 2))
            for ent, dist in [(e, d) for e in ents for d in (0, 1)]:
                if dist == 1 and comps and comps[-1]["entity"] == ent:
                    continue  # the first draw was inside the domain of the math functions
                if kn.kind == "integral":
                    w, c, x = e3meta._inputs(kn, rng, real_data=not cm)
                    if dist == 1:  # narrow, coefficient-wise separated draws (ln, acos, sqrt of combinations of coefficients)
                        for ci, (lo, hi) in enumerate(kn.ext.all_coeff_ranges or []):
                            w[lo:hi] = rng.uniform(0.3 * (ci + 1) - 0.04, 0.3 * (ci + 1) + 0.04, hi - lo)
                else:
                    ext = kn.ext.ext
                    w = rng.uniform(0.15, 0.85, max(ext["w"], 1))
                    c = rng.uniform(0.15, 0.85, max(ext["c"], 1))
                    nn = ext["coordinate_dofs"] // 3
                    x = np.zeros((nn, 3))
                    import basix

                    dom = __import__("ufl").domain.extract_unique_domain(kn.original)
                    cel = dom.ufl_coordinate_element()
                    sub = cel._sub_element if hasattr(cel, "_sub_element") else cel
                    pts = np.asarray(sub._element.points, dtype=float)
                    x[:, : pts.shape[1]] = pts + 0.08 * rng.uniform(-1, 1, pts.shape)
                    x = x.reshape(-1)
                try:
                    A1 = e3meta._run(kn, w, c, x, ent)
                except (ValueError, OverflowError, ZeroDivisionError) as e:
                    if dist == 0 and any(t in str(e) for t in ("domain", "range", "division")):
                        continue
                    raise NotImplementedError("no input draw inside the domain of the math functions") from None
                A2 = np.zeros(kn.ext.ext["A"], dtype=dt)
                fn(A2, w.astype(dt), c.astype(dt), np.asarray(x, dtype=float), np.array([ent, ent], dtype=np.int32), np.array([0, 0], dtype=np.uint8), None)
                scale = max(np.abs(A1).max(), np.abs(A2).max(), 1e-30)
                err = float(np.abs(A1 - A2).max())
                prec = float(np.finfo(np.dtype(kn.options["scalar_type"])).eps)
                tol = max(1e-9, 200 * prec) * scale + 1e-13
                comps.append(dict(entity=ent, ok=bool(err <= tol), err=err, tol=float(tol)))
            out.append(dict(name=name, comparisons=comps))
        except NotImplementedError as e:
            out.append(dict(name=name, skipped=str(e)))
        except RuntimeError as e:
            if "numba backend does not support" in str(e):  # rejected during code generation (C19), not emitted
                out.append(dict(name=name, skipped="rejected by the numba backend: " + str(e)))
            else:
                out.append(dict(name=name, crashed=f"{type(e).__name__}: {e}", tb=traceback.format_exc()[-1200:]))
        except Exception as e:  # noqa: BLE001
            out.append(dict(name=name, crashed=f"{type(e).__name__}: {e}", tb=traceback.format_exc()[-1200:]))
    return dict(file=rel, opts=opts, results=out)


_cache = {}


def run_all(tier, seed):
    if tier in _cache:
        return _cache[tier]
    jobs = (list(C.QUICK) if tier == "quick" else C.demo_files()) + C.corpus_files()
    jobs = [(rel, opts, 999 + seed) for rel, opts in jobs]
    with mp.get_context("fork").Pool(min(16, len(jobs))) as pool:
        res = pool.map(_one, jobs, chunksize=1)
    _cache[tier] = res
    return res


def run_e3nbrun(rep, tier, seed, min_kernels=20):
    n = 0
    skipped = {}
    for f in run_all(tier, seed):
        if "error" in f:
            rep.error(f"E3 numba execution {f['file']}", f["error"] + "\n" + f.get("tb", ""))
            continue
        for r in f["results"]:
            name = f"kernel {r['name']}{f['opts'] or ''}: the numba backend's Python text, executed, gives the same tensor as the LNodes program under C semantics"
            if "skipped" in r:
                skipped[r["skipped"]] = skipped.get(r["skipped"], 0) + 1
                continue
            if "crashed" in r:
                # text that does not run is a violation of 'valid Python whose kernels ... produce the same tensor'
                rep.violation(f"numba-run:{r['name']}", name + f" fails: executing the emitted text raises {r['crashed']}",
                              dict(obligation=name, error=r["crashed"], traceback=r.get("tb"), corpus_file=f["file"], options=f["opts"], how="python -m checks.e3nbrun <corpus file>"))
                n += 1
                continue
            bad = [c for c in r["comparisons"] if not c["ok"]]
            n += 1
            if not bad:
                rep.ob(name, "proved", "runtime-contract", "bounded")
            else:
                rep.violation(f"numba-run:{r['name']}", name + f" fails: {bad[0]}", dict(obligation=name, failing=bad[:3], corpus_file=f["file"], options=f["opts"],
                                                                                          how="python -m checks.e3nbrun <corpus file>"))
    rep.extra["numba_kernels_executed"] = n
    rep.extra["numba_kernels_skipped"] = skipped
    if n < min_kernels:
        rep.error("E3 numba execution", f"only {n} kernels executed (vacuity guard)")


if __name__ == "__main__":
    import json
    import sys

    rel = sys.argv[1]
    opts = eval(sys.argv[2]) if len(sys.argv) > 2 else {}  # noqa: S307
    r = _one((rel, opts, 999))
    if "error" in r:
        print(r["error"], r.get("tb"))
    else:
        for x in r["results"]:
            st = "skip " + x["skipped"] if "skipped" in x else ("CRASH " + x["crashed"] + "\n" + x["tb"][-600:] if "crashed" in x else ("ok" if all(c["ok"] for c in x["comparisons"]) else "BAD " + json.dumps(x["comparisons"])))
            print(x["name"][:100], "|", st)
