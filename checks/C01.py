from checks import finite
from checks.generic import run_components

ASSUME = ["A-INT: Python/numpy ints treated as mathematical integers", "A-FLOAT: floats treated as reals"]


def run(tier, seed):
    return run_components("C01", tier, seed, ["e1", finite.c03_table_predicates, "e2", lambda rep, t, s: __import__("checks.e3ir", fromlist=["x"]).run_e3ir(rep, "C01", t)], ASSUME,
                          ["kernelvc (E2 walker; scoping mirrors C/formatter.py)", "UFL form data as oracle for extents"])
