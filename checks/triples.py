"""C16/C18/C19: exhaustive depth-2 round trips through the real formatters; literal precision."""
from __future__ import annotations

import ast
import math
import os
import struct

from pyvc.interp import file_ast

REPO = os.environ.get("FFCX_REPO", "/repo")


def run_triples(rep, language, props_note=""):
    from runtime.unparse import roundtrip, triples

    n = 0
    rejected = 0
    for key, tree, err in triples():
        if tree is None:
            rejected += 1
            continue
        n += 1
        ok, text, got, want, e = roundtrip(tree, language)
        name = f"unparse[{language}] {key}: parse(format(tree)) == tree"
        if ok:
            rep.ob(name, "proved", "exhaustive-finite", "exhaustive",
                   sample=dict(triple=key, text=text) if n in (5, 300) else None)
        else:
            rep.violation(f"triple:{language}:{key}", f"{language} formatter: {key} prints {text!r} which "
                          f"{'does not parse' if got is None else 'parses to a different tree'} {e or ''}",
                          dict(obligation=name, text=text, parsed=repr(got), tree=repr(want), error=e,
                               how_to_replay=f"runtime.unparse.roundtrip(tree for {key}, {language!r})"))
    rep.extra[f"triples_{language}"] = dict(constructible=n, rejected_by_real_constructors=rejected, exhaustive=True)


def run_quads(rep, language, tier="quick"):
    """Depth-3 trees: exhaustive over the stated finite family (operator pairs x sensitive children; all children in the
    thorough tier)."""
    from runtime.unparse import quads, roundtrip

    n = rejected = 0
    for key, tree, err in quads(full=(tier != "quick")):
        if tree is None:
            rejected += 1
            continue
        n += 1
        ok, text, got, want, e = roundtrip(tree, language)
        name = f"unparse[{language}] depth-3 {key}: parse(format(tree)) == tree"
        if ok:
            rep.ob(name, "proved", "exhaustive-finite", "exhaustive", sample=dict(tree=key, text=text) if n == 7 else None)
        else:
            rep.violation(f"quad:{language}:{key}", f"{language} formatter: {key} prints {text!r} which "
                          f"{'does not parse' if got is None else 'parses to a different tree'} {e or ''}",
                          dict(obligation=name, text=text, parsed=repr(got), tree=repr(want), error=e,
                               how_to_replay=f"runtime.unparse.roundtrip(tree for {key}, {language!r})"))
    rep.extra[f"depth3_{language}"] = dict(constructible=n, rejected_by_real_constructors=rejected, family="operator pairs x " + ("all children" if tier != "quick" else "sensitive children"))


def format_precisions(path, qual="Formatter._format_number"):
    """Precisions p of the ':.p' format specs in the real _format_number."""
    from pyvc.interp import find_def

    node = find_def(os.path.join(REPO, path), qual)
    if node is None:
        return None
    out = []
    for n in ast.walk(node):
        if isinstance(n, ast.FormattedValue) and n.format_spec is not None:
            spec = "".join(v.value for v in n.format_spec.values if isinstance(v, ast.Constant))
            out.append(spec)
    return out


def ulp(x):
    b = struct.unpack("<q", struct.pack("<d", abs(x)))[0]
    return struct.unpack("<d", struct.pack("<q", b + 1))[0] - abs(x)


def literal_precision(rep, tier, seed):
    """p significant decimal digits read back within one ulp of binary64 iff 5*10^-p <= 2^-53 (sufficient),
    decided arithmetically; a failing p is confirmed by replaying witnesses through the real formatter."""
    import fractions

    specs = format_precisions("ffcx/codegeneration/C/formatter.py")
    if not specs:
        rep.undecide("C _format_number precision", "anchor missing")
        return
    from ffcx.codegeneration.C.formatter import Formatter

    fmt = Formatter("float64")
    for spec in sorted(set(specs)):
        try:
            p = int(spec.strip(".gGeEfF"))
        except ValueError:
            rep.undecide(f"format spec {spec!r}", "not of the form .p")
            continue
        name = f"C literal format {spec!r}: relative rounding error of {p} significant digits 5*10^-{p} <= 2^-53 (one ulp)"
        ok = fractions.Fraction(5, 10 ** p) <= fractions.Fraction(1, 2 ** 53)
        if ok:
            rep.ob(name, "proved", "eval", "proved", sample=dict(obligation=name))
            continue
        # witness: numbers just above 1 (16th digit cannot resolve 2^-52 steps)
        worst = None
        for k in range(1, 64):
            x = 1.0 + k * 2.0 ** -52
            back = float(fmt._format_number(x))
            err = abs(back - x) / ulp(x)
            if worst is None or err > worst[1]:
                worst = (x, err, fmt._format_number(x))
        if worst and worst[1] > 1.0:
            rep.violation(f"literal:{spec}", f"{name} fails; witness {worst[0]!r} prints as {worst[2]} = {worst[1]:.1f} ulp off",
                          dict(obligation=name, witness=repr(worst[0]), printed=worst[2], ulps=worst[1],
                               how_to_replay="float(Formatter('float64')._format_number(x)) vs x"))
        else:
            rep.undecide(name, "sufficient condition fails but no witness found")
    # every scalar type: literals and table values printed by the real formatter read back within one ulp of the REAL
    # type of that scalar type (witnesses 1 + k*ulp cover every last-digit pattern near 1; exhaustive over k < 64)
    import numpy as np

    for st, real in (("float32", np.float32), ("float64", np.float64), ("complex64", np.float32), ("complex128", np.float64)):
        f2 = Formatter(st)
        eps = float(np.finfo(real).eps)
        worst = None
        for k in list(range(1, 64)) + [3 * 2 ** j + 1 for j in range(3, 20)]:
            for base in (1.0, 1.0 / 3.0, 0.1, 2.0 / 3.0):
                x = float(real(base) * real(1.0 + k * eps))
                cases = [(f2._format_number(x), x)]
                if st.startswith("complex"):
                    cases.append((f2._format_number(complex(x, -x)), x))
                for txt, want in cases:
                    nums = [float(m) for m in __import__("re").findall(r"[-+]?(?:\d+\.\d*|\.\d+|\d+)(?:[eE][-+]?\d+)?", txt)]
                    back = [float(real(v)) for v in nums if v != 0.0]
                    err = min((abs(abs(b) - abs(want)) for b in back), default=float("inf")) / (abs(want) * eps)
                    if worst is None or err > worst[1]:
                        worst = (x, err, txt)
        name = f"C literals of scalar type {st} read back within one ulp of {real.__name__} (witness family 1+k*eps, 4 bases, real and complex parts)"
        if worst[1] <= 1.0:
            rep.ob(name, "proved", "exhaustive-finite", "exhaustive")
        else:
            rep.violation(f"literal:{st}", f"{name} fails; witness {worst[0]!r} prints as {worst[2]} = {worst[1]:.3g} ulp off",
                          dict(obligation=name, witness=repr(worst[0]), printed=worst[2], ulps=worst[1],
                               how_to_replay=f"Formatter({st!r})._format_number(x)"))
    # round trip on sampled literals (bounded, second opinion)
    import random

    rnd = random.Random(seed)
    bad = 0
    for _ in range(2000):
        x = rnd.uniform(-1, 1) * 10 ** rnd.randint(-12, 12)
        back = float(fmt._format_number(x))
        if abs(back - x) > ulp(x):
            bad += 1
    rep.ob("sampled literals read back within one ulp (2000 samples)", "proved" if bad == 0 else "refuted",
           "runtime-contract", "bounded")
