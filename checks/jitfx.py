"""C14/C15: per-process ordering contracts of the JIT cache protocol, proved by enumerating every
control-flow path of the real functions (including every exceptional exit of the fault model) with E1 in
effect-trace mode, and checking the trace predicates O1..O7 on each path."""
from __future__ import annotations

import ast
import os
import traceback

from pyvc import interp as PI
from pyvc.ctx import explore
from pyvc.effects import EffectModel, descr, mk_path, mk_str, with_suffix
from pyvc.interp import Interp, PyRaise, _Break, _Continue, _Return
from pyvc.values import EngineError, Opaque, SObj


class GhostLogger:
    """Stand-in class for the process-global root logger (never the real one)."""


def build_model(ctxbox):
    import contextlib
    import importlib
    import importlib.machinery
    import importlib.util
    import time

    import cffi

    import ffcx.codegeneration.jit as J
    import ffcx.compiler
    import ffcx.naming
    import ffcx.options

    def ev(interp, *e):
        interp.ctx.event(*e)

    def h_open(interp, fn, args, kwargs):
        path = args[0]
        mode = args[1] if len(args) > 1 else kwargs.get("mode", "r")
        d = descr(path)
        if isinstance(mode, str) and mode.startswith("x"):
            if d.endswith(".c.cached"):
                ev(interp, "create", d)  # fault model: creating / writing the marker does not fail
            else:
                if interp.ctx.decide(2, f"open-x {d}: created | exists") == 1:
                    ev(interp, "create-exists", d)
                    raise PyRaise(FileExistsError(d))
                ev(interp, "create", d)
        else:
            ev(interp, "open", d, mode)
        f = Opaque(f"file:{d}")
        return f

    def h_replace(interp, fn, args, kwargs):
        ev(interp, "replace", descr(args[0]), descr(args[1]))
        return None

    def h_exists(interp, fn, args, kwargs):
        r = interp.ctx.decide(2, f"exists {descr(args[0])}") == 0
        ev(interp, "exists", descr(args[0]), r)
        return r

    def h_sleep(interp, fn, args, kwargs):
        ev(interp, "sleep")

    def h_codegen(interp, fn, args, kwargs):
        ev(interp, "codegen-begin")
        M.may_raise(interp, "compile_ufl_objects")
        ev(interp, "codegen-ok")
        return (Opaque("code"), Opaque("suffixes"))

    def h_get_options(interp, fn, args, kwargs):
        M.may_raise(interp, "get_options")
        return Opaque("options")

    def h_signature(interp, fn, args, kwargs):
        M.may_raise(interp, "compute_signature")
        return mk_str("<sig>")

    def h_name(interp, fn, args, kwargs):
        return mk_str("<name>")

    def h_path(interp, fn, args, kwargs):
        a = args[0] if args else "."
        return mk_path(descr(a) if isinstance(a, Opaque) else str(a))

    def h_mkdtemp(interp, fn, args, kwargs):
        ev(interp, "mkdtemp")
        return mk_str("<tmp>")

    def h_ffi(interp, fn, args, kwargs):
        return Opaque("ffibuilder", typ="ffi")

    def h_redirect(interp, fn, args, kwargs):
        o = Opaque("redirect_stdout", typ="redirect")
        return o

    # --- methods on opaque receivers
    def not_a_path(recv, method):
        """pathlib methods on a value that is still the caller's str (cache_dir may be given as str): AttributeError."""
        if recv is not None and getattr(recv, "typ", None) == "str":
            raise PyRaise(AttributeError(f"'str' object has no attribute '{method}'"))

    def m_joinpath(interp, fn, args, kwargs):
        base = fn.origin[: -len(".joinpath")]
        recv = ctxbox["last_recv"].get(fn.origin)
        not_a_path(recv, "joinpath")
        d = getattr(recv, "descr", "<cache>") if recv is not None else "<cache>"
        return mk_path(d + "/" + "/".join(descr(a) for a in args))

    def m_with_suffix(interp, fn, args, kwargs):
        recv = ctxbox["last_recv"].get(fn.origin)
        not_a_path(recv, "with_suffix")
        d = getattr(recv, "descr", "<?>") if recv is not None else "<?>"
        return mk_path(with_suffix(d, args[0]))

    def m_mkdir(interp, fn, args, kwargs):
        not_a_path(ctxbox["last_recv"].get(fn.origin), "mkdir")
        M.may_raise(interp, "mkdir")
        ev(interp, "mkdir")

    def m_set_source(interp, fn, args, kwargs):
        M.may_raise(interp, "ffibuilder.set_source")
        ev(interp, "cffi-set_source")

    def m_cdef(interp, fn, args, kwargs):
        M.may_raise(interp, "ffibuilder.cdef")
        ev(interp, "cffi-cdef")

    def m_compile(interp, fn, args, kwargs):
        ev(interp, "cc-begin")
        M.may_raise(interp, "ffibuilder.compile")
        ev(interp, "cc-ok")
        return Opaque("so-path")

    def m_exec_module(interp, fn, args, kwargs):
        M.may_raise(interp, "exec_module")
        ev(interp, "exec_module")

    def m_find_spec(interp, fn, args, kwargs):
        M.may_raise(interp, "find_spec")
        return Opaque("spec")

    M = EffectModel(
        effect_funcs={
            open: h_open, os.replace: h_replace, os.path.exists: h_exists, time.sleep: h_sleep,
            ffcx.compiler.compile_ufl_objects: h_codegen, ffcx.options.get_options: h_get_options,
            ffcx.naming.compute_signature: h_signature, ffcx.naming.form_name: h_name,
            ffcx.naming.expression_name: h_name, J.Path: h_path, J.tempfile.mkdtemp: h_mkdtemp, cffi.FFI: h_ffi,
            J.redirect_stdout: h_redirect, J._compute_option_signature: h_name, J._compilation_signature: h_name,
        },
        effect_methods={"joinpath": m_joinpath, "with_suffix": m_with_suffix, "mkdir": m_mkdir, "set_source": m_set_source,
                        "cdef": m_cdef, "compile": m_compile, "exec_module": m_exec_module, "find_spec": m_find_spec},
    )
    return M, J


class RedirectCM:
    @staticmethod
    def matches(cm):
        return isinstance(cm, Opaque) and getattr(cm, "typ", None) == "redirect"

    @staticmethod
    def enter(interp, cm):
        interp.ctx.event("stdout-redirect")
        return cm

    @staticmethod
    def exit(interp, cm, pr):
        interp.ctx.event("stdout-restore")
        return False


class Reg:
    """Minimal registry for effect mode."""

    def __init__(self):
        self.shapes = {}
        self.common_fields = {}
        self.spec_globals = {}
        self.loops = []

    def lookup_effect(self, fn):
        return None

    def lookup_modular(self, fn):
        return None

    def force_interp(self, fn):
        return False

    def loop_handler(self, st):
        if isinstance(st.iter, ast.Call) and ast.unparse(st.iter) == "range(timeout)":
            return stateless_poll_loop
        return None

    def comp_handler(self, interp, n, env):
        return None

    def cm_handler(self, cm):
        return RedirectCM if RedirectCM.matches(cm) else None


def stateless_poll_loop(interp, st, env, it):
    """`for i in range(timeout)` with an unknown timeout: zero iterations, or an arbitrary iteration that either
    leaves the loop (return / raise) or continues WITHOUT changing any state (checked)."""
    if interp.ctx.decide(2, "poll loop: some iteration | none") == 1:
        interp.exec_block(st.orelse, env)
        return
    n0 = len(interp.ctx.trace)
    interp.assign(st.target, Opaque("i"), env)
    try:
        interp.exec_block(st.body, env)
    except _Continue:
        pass
    except _Break:
        return
    for e in interp.ctx.trace[n0:]:
        if not (e[0] == "sleep" or (e[0] == "exists" and e[2] is False)):
            raise EngineError(f"poll loop iteration that continues is not stateless: {e}")
    interp.ctx.event("poll-exhausted")
    interp.exec_block(st.orelse, env)


# ------------------------------------------------------------------------------------------
def explore_function(fname, make_args):
    """All paths of jit.<fname>. Returns list of dict(trace, outcome, exc, handlers_ok, decisions)."""
    box = {"last_recv": {}}
    M, J = build_model(box)
    paths = []

    # receiver tracking for path methods: attribute access on an opaque path returns an Opaque whose origin we map back
    orig_getattr = Interp.getattr

    def getattr_(self, obj, name):
        r = orig_getattr(self, obj, name)
        o = self.resolve(obj)
        if isinstance(o, Opaque) and isinstance(r, Opaque):
            box["last_recv"][r.origin] = o
        return r

    Interp.getattr = getattr_
    try:
        def run_one(ctx):
            it = Interp(ctx, Reg())
            it.effects = M
            initial = Opaque("initial-root-handlers", typ="list")
            ghost = SObj(GhostLogger)
            ghost.fields["handlers"] = initial
            PI.GLOBAL_OVERRIDES["root_logger"] = ghost
            args, kwargs = make_args(it)
            out = None
            try:
                res = it.run_function(getattr(J, fname), args, kwargs)
                out = ("return", res)
            except PyRaise as pr:
                out = ("raise", pr)
            h = ghost.fields["handlers"]
            restored = h is initial or (isinstance(h, Opaque) and h.origin.startswith("initial-root-handlers.copy"))
            return dict(trace=list(ctx.trace), outcome=out[0], payload=out[1], handlers_restored=restored,
                        decisions=[f"{lab}={c}" for c, n, lab in ctx.decisions])

        for ctx, (st, payload) in explore(run_one, max_paths=20000):
            if st == "ok":
                paths.append(payload)
    finally:
        Interp.getattr = orig_getattr
        PI.GLOBAL_OVERRIDES.pop("root_logger", None)
    return paths, M


# ------------------------------------------------------------------------------------------ obligations
def _idx(trace, pred):
    for i, e in enumerate(trace):
        if pred(e):
            return i
    return None


def is_lock(e):
    return e[0] == "create" and e[1].endswith(".c")


def is_ready(e):
    return e[0] == "create" and e[1].endswith(".c.cached")


BUILD = ("codegen-begin", "cffi-set_source", "cffi-cdef", "cc-begin")


def obligations_for(fname, cache, paths):
    """Yield (name, ok, witness path) per path and obligation."""
    for p in paths:
        t = p["trace"]
        tag = f"{fname}[cache_dir {'given' if cache else 'None'}]"
        lock = _idx(t, is_lock)
        ready = _idx(t, is_ready)
        ccok = _idx(t, lambda e: e[0] == "cc-ok")
        first_build = _idx(t, lambda e: e[0] in BUILD)
        exec_i = _idx(t, lambda e: e[0] == "exec_module")
        if fname in ("compile_forms", "compile_expressions"):
            if cache:
                yield (f"{tag} O1: every build action is preceded by a successful exclusive create of the .c lock",
                       first_build is None or (lock is not None and lock < first_build), p)
            yield (f"{tag} O2: the ready marker is created only after ffibuilder.compile returned normally",
                   ready is None or (ccok is not None and ccok < ready), p)
            # waiting path: loads only after exists(ready) == True
            waited = _idx(t, lambda e: e[0] == "create-exists")
            if waited is not None:
                seen = _idx(t, lambda e: e[0] == "exists" and e[1].endswith(".c.cached") and e[2] is True)
                yield (f"{tag} O3: a waiter loads the module only after the ready marker was seen",
                       exec_i is None or (seen is not None and seen < exec_i), p)
                yield (f"{tag} O3b: a waiter never builds", first_build is None, p)
                yield (f"{tag} O3f: a waiter never renames or creates files in the cache (the lock belongs to the builder)",
                       _idx(t, lambda e: e[0] in ("replace", "create")) is None, p)
                yield (f"{tag} O3c: a waiter returns the loaded objects or raises (TimeoutError after the poll loop)",
                       p["outcome"] == "raise" or exec_i is not None, p)
            else:
                yield (f"{tag} O7: the builder loads the module only after the build completed (marker written)",
                       exec_i is None or (ready is not None and ready < exec_i), p)
            # O4: failure inside the build region: lock renamed to .failed and the original exception re-raised
            fault = _idx(t, lambda e: e[0] == "fault")
            region_start = lock if cache else _idx(t, lambda e: e[0] == "mkdtemp")
            if p["outcome"] == "raise" and fault is not None and region_start is not None and fault > region_start \
                    and waited is None and ready is None:
                rep_i = _idx(t, lambda e: e[0] == "replace" and e[1].endswith(".c") and e[2].endswith(".c.failed"))
                exc = p["payload"].exc
                same = isinstance(exc, SObj) and exc.fields.get("fault_label") == t[fault][1]
                yield (f"{tag} O4: a failed build renames the .c lock to .c.failed", rep_i is not None and rep_i > fault, p)
                yield (f"{tag} O4b: the original exception is re-raised", same, p)
        if fname in ("compile_forms", "compile_expressions", "_compile_objects"):
            yield (f"{tag} O5: root logger handlers are restored on every exit ({p['outcome']})", p["handlers_restored"], p)
            depth = 0
            for e in t:
                depth += 1 if e[0] == "stdout-redirect" else (-1 if e[0] == "stdout-restore" else 0)
            yield (f"{tag} O5b: stdout redirection is undone on every exit", depth == 0, p)
        if fname == "get_cached_module":
            seen = _idx(t, lambda e: e[0] == "exists" and e[2] is True)
            yield (f"{tag} O3: exec_module only after exists(ready marker) returned True",
                   exec_i is None or (seen is not None and seen < exec_i), p)
            yield (f"{tag} O3d: nothing is created or renamed while waiting",
                   _idx(t, lambda e: e[0] in ("replace",) or (e[0] == "create" and lock is not None and e is not t[lock])) is None, p)
            if _idx(t, lambda e: e[0] == "poll-exhausted") is not None or (_idx(t, lambda e: e[0] == "create-exists") is not None
                                                                           and exec_i is None and p["outcome"] == "return"):
                yield (f"{tag} O3e: an exhausted poll loop ends in TimeoutError", p["outcome"] == "raise"
                       and getattr(p["payload"], "cls", None) is TimeoutError, p)


def args_compile(cache, what):
    def mk(it):
        kw = dict(options=Opaque("options"), cache_dir=(mk_str("<cache>") if cache else None), timeout=Opaque("timeout"),
                  cffi_extra_compile_args=Opaque("args"), cffi_verbose=False, cffi_debug=Opaque("dbg"),
                  cffi_libraries=Opaque("libs"), visualise=False)
        kw["forms" if what == "compile_forms" else "expressions"] = [Opaque("obj0")]
        return [], kw

    return mk


def args_gcm(it):
    return [mk_str("<module>"), [Opaque("name0")], mk_str("<cache>"), Opaque("timeout")], {}


def args_co(it):
    return [Opaque("decl"), [Opaque("obj0")], [Opaque("name0")], mk_str("<module>"), Opaque("options"), mk_path("<cache>"),
            Opaque("args"), False, Opaque("dbg"), Opaque("libs")], {}


def run_jit(rep, prop, tier, seed):
    plan = [("compile_forms", True), ("compile_forms", False), ("compile_expressions", True), ("compile_expressions", False),
            ("get_cached_module", True), ("_compile_objects", True)]
    want = {"C14": ("O1", "O2", "O3", "O7"), "C15": ("O4", "O5", "O3e", "O2")}[prop]
    total_assumed = set()
    replayed = set()
    for fname, cache in plan:
        try:
            mk = args_gcm if fname == "get_cached_module" else (args_co if fname == "_compile_objects" else args_compile(cache, fname))
            paths, M = explore_function(fname, mk)
        except EngineError as e:
            rep.undecide(f"jit {fname}", f"{type(e).__name__}: {e}")
            continue
        except Exception as e:  # noqa: BLE001
            rep.error(f"jit {fname}", traceback.format_exc()[-1500:])
            continue
        total_assumed |= M.assumed_total
        rep.function(f"ffcx/codegeneration/jit.py::{fname}", note=f"{len(paths)} control-flow paths incl. fault points")
        if not any(p["outcome"] == "return" for p in paths):
            rep.error(f"jit {fname}", "vacuous: no path returns normally")
        for name, ok, p in obligations_for(fname, cache, paths):
            import re

            o = re.search(r"\] (O\w+):", name).group(1)
            if not any(o.startswith(w) for w in want):
                continue
            pid = ";".join(d for d in p["decisions"] if d.endswith("=1"))[:200]
            full = f"{name} @path[{pid}]"
            if ok:
                rep.ob(full, "proved", "path-enumeration", "proved",
                       sample=dict(obligation=name, trace=[list(e) for e in p["trace"]]) if len(rep.samples) < 2 else None)
            else:
                fault = next((e[1] for e in p["trace"] if e[0] == "fault"), "no fault")
                key = f"jit:{fname}:{o}:{fault}"
                if any(v["key"] == key for v in rep.violations):
                    continue
                native = None
                if fname == "compile_forms" and cache and key not in replayed:
                    replayed.add(key)
                    try:
                        from checks.jit_replay import replay as native_replay

                        native = native_replay(o, fault)
                    except Exception as e:  # noqa: BLE001
                        native = ("unsupported", dict(reason=f"replay crashed: {type(e).__name__}: {e}"))
                rep.violation(key, f"{name}: violated on the path with {fault}"
                              + (" - reproduced on the real compile_forms with the fault injected" if native and native[0] == "violation" else ""),
                              dict(function=f"ffcx/codegeneration/jit.py::{fname}", obligation=name,
                                   trace=[list(e) for e in p["trace"]], decisions=p["decisions"], outcome=p["outcome"],
                                   native_replay=native,
                                   how_to_replay="checks/jit_replay.py: replay(obligation tag, fault label) runs the real compile_forms with the fault injected"),
                              no_input=not (native and native[0] == "violation"))
    rep.assume("fault model: compile_ufl_objects, cffi set_source/cdef/compile, importlib calls and any call not whitelisted may raise; "
               "creating/writing the ready marker and os.replace do not fail; a kill may happen between any two actions",
               "whitelisted as total (cannot raise): " + ", ".join(sorted(total_assumed)),
               "L-RG: every per-process action preserves 'marker exists => shared object complete', hence it holds in every "
               "interleaving and after a crash at any point (pen-and-paper)",
               "O_EXCL create and rename are atomic (file system)", "module names contain no '.' (Path.with_suffix model)")
