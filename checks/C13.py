from checks import finite
from checks.generic import run_components

ASSUME = ["sha1 is collision free; UFL signatures are renumbering invariant and separate different integrands (external)",
          "stability across processes is exercised by the C12 replay (same generator), not proved"]


def run(tier, seed):
    return run_components("C13", tier, seed, [finite.c13_option_signature, finite.c13_signature_across_configs, finite.c13_compute_signature, finite.c13_cross_process, finite.c13_module_names_distinct],
                          ASSUME, ["runtime/descriptors.py"])
