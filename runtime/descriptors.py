"""E3: run-time contract of the descriptor generators, evaluated on each corpus module (bounded).

For a UFL file the real `compile_ufl_objects` produces the C (and numba) module.  The descriptors are
parsed back from the text and compared, field by field, with an oracle computed from UFL's form data
(not from FFCx's FormIR / IntegralIR) and ufcx.h.
"""

from __future__ import annotations

import ast
import re

import basix
import numpy as np
import ufl
import ufl.algorithms

ITG_TYPES = ("cell", "exterior_facet", "interior_facet", "vertex", "ridge")


def ufcx_enum(header_text, enum_name):
    m = re.search(r"typedef enum\s*\{(.*?)\}\s*" + re.escape(enum_name) + r"\s*;", header_text, re.S)
    if not m:
        return None
    body = re.sub(r"//[^\n]*", "", m.group(1))
    items = [x.strip() for x in body.split(",") if x.strip()]
    out = []
    val = -1
    for it in items:
        if "=" in it:
            n, v = it.split("=")
            val = int(v.strip(), 0)
            out.append((n.strip(), val))
        else:
            val += 1
            out.append((it, val))
    return out


_ARR = re.compile(r"^(?:static\s+)?(?:const\s+)?([\w ]+?\*?)\s+(\w+)\[(\d+)\]\s*=\s*\{(.*?)\};", re.S | re.M)
_STRUCT = re.compile(r"^ufcx_(form|integral|expression)\s+(\w+)\s*=\s*\{(.*?)^\};", re.S | re.M)
_ALIAS = re.compile(r"^ufcx_(form|expression)\*\s+(\w+)\s*=\s*&(\w+);", re.M)
_FUNC = re.compile(r"^void\s+(tabulate_tensor_\w+)\s*\(", re.M)


def parse_c(code):
    arrays = {}
    for m in _ARR.finditer(code):
        typ, name, n, body = m.group(1).strip(), m.group(2), int(m.group(3)), m.group(4)
        if name.startswith(("FE", "weights_", "temp_")) or typ in ("double", "float"):
            continue
        items = [x.strip() for x in body.replace("\n", " ").split(",") if x.strip()]
        arrays[name] = dict(type=typ, n=n, items=items)
    structs = {}
    for m in _STRUCT.finditer(code):
        kind, name, body = m.group(1), m.group(2), m.group(3)
        fields = {}
        for fm in re.finditer(r"\.(\w+)\s*=\s*(.*?),?\s*$", body, re.M):
            fields[fm.group(1)] = fm.group(2).rstrip(",").strip()
        structs[name] = dict(kind=kind, fields=fields)
    aliases = {m.group(2): (m.group(1), m.group(3)) for m in _ALIAS.finditer(code)}
    funcs = set(m.group(1) for m in _FUNC.finditer(code))
    return dict(arrays=arrays, structs=structs, aliases=aliases, funcs=funcs)


def parse_h(code):
    ext = re.findall(r"^extern\s+ufcx_(form|integral|expression)\s*(\*?)\s*(\w+);", code, re.M)
    return [(k, bool(star), name) for k, star, name in ext]


def arr_ints(parsed, ref):
    if ref == "NULL":
        return []
    a = parsed["arrays"].get(ref)
    if a is None:
        return None
    out = []
    for x in a["items"]:
        x = re.sub(r"UINT64_C\((\d+)\)", r"\1", x)
        out.append(int(x, 0))
    if len(out) != a["n"]:
        return ("size-mismatch", a["n"], out)
    return out


def arr_strs(parsed, ref):
    if ref == "NULL":
        return []
    a = parsed["arrays"].get(ref)
    if a is None:
        return None
    return [x.strip('"') if x.startswith('"') else x for x in a["items"]]


# --------------------------------------------------------------------------- oracle
def integral_base_name(fd, form_index, itg_index, prefix):
    """Name stem of the objects generated for integral_data[itg_index] (needed only to LINK descriptor entries to kernels; the
    scheme is FFCx's: the tag carries the integral's position when the form integrates over several meshes)."""
    from ffcx import naming

    itg = fd.integral_data[itg_index]
    multi = any(d.domain != fd.integral_data[0].domain for d in fd.integral_data)
    return naming.integral_name(fd.original_form, itg.integral_type, form_index, (itg.subdomain_id, itg_index) if multi else itg.subdomain_id, prefix)


def expected_form(fd, form_index, prefix, object_names, part, kernels_of):
    """What ufcx.h and the property say the descriptor of this form must contain.

    kernels_of(integral_name) -> list of domain names for which an ufcx_integral object exists in the module
    """
    from ffcx import naming

    exp = {}
    args = fd.original_form.arguments()
    exp["rank"] = 1 if (part == "diagonal" and len(args) == 2) else len(args)
    exp["num_coefficients"] = len(fd.reduced_coefficients)
    orig = fd.original_form.coefficients()
    exp["original_coefficient_positions"] = [orig.index(c) for c in fd.reduced_coefficients]
    consts = fd.original_form.constants()
    exp["num_constants"] = len(consts)
    exp["constant_ranks"] = [len(c.ufl_shape) for c in consts]
    exp["constant_shapes"] = [list(c.ufl_shape) for c in consts]
    exp["coefficient_names"] = [object_names.get(id(c), f"w{j}") for j, c in enumerate(fd.reduced_coefficients)]
    exp["constant_names"] = [object_names.get(id(c), f"c{j}") for j, c in enumerate(consts)]
    exp["finite_element_hashes"] = [e.basix_hash() or 0 for e in list(fd.argument_elements) + list(fd.coefficient_elements)]
    # (type, id) -> multiset of kernels
    per_type = {t: [] for t in ITG_TYPES}
    for itg_index, itg in enumerate(fd.integral_data):
        name = integral_base_name(fd, form_index, itg_index, prefix)
        for sid in itg.subdomain_id:
            i = -1 if sid == "otherwise" else int(sid)
            for dom in kernels_of(name):
                per_type[itg.integral_type].append((i, f"{name}_{dom}"))
    exp["per_type"] = per_type
    fname = object_names.get(id(fd.original_form), form_index)
    exp["alias"] = f"form_{prefix}_{fname}"
    exp["name"] = naming.form_name(fd.original_form, form_index, prefix)
    return exp


def check_form(parsed, exp, report, tag):
    """Compare the parsed ufcx_form with the oracle. report(name, ok, detail)."""
    name = exp["name"]
    st = parsed["structs"].get(name)
    if st is None or st["kind"] != "form":
        report(f"{tag}: form object {name[:16]} is defined", False, dict(defined=sorted(parsed["structs"])[:8]))
        return
    f = st["fields"]
    report(f"{tag}: rank", int(f["rank"]) == exp["rank"], dict(got=f["rank"], want=exp["rank"]))
    report(f"{tag}: num_coefficients", int(f["num_coefficients"]) == exp["num_coefficients"],
           dict(got=f["num_coefficients"], want=exp["num_coefficients"]))
    got = arr_ints(parsed, f["original_coefficient_positions"])
    report(f"{tag}: original_coefficient_positions", got == exp["original_coefficient_positions"],
           dict(got=got, want=exp["original_coefficient_positions"]))
    report(f"{tag}: num_constants", int(f["num_constants"]) == exp["num_constants"], dict(got=f["num_constants"]))
    got = arr_ints(parsed, f["constant_ranks"])
    report(f"{tag}: constant_ranks", got == exp["constant_ranks"], dict(got=got, want=exp["constant_ranks"]))
    shp_refs = arr_strs(parsed, f["constant_shapes"])
    got_shapes = []
    for r in shp_refs or []:
        got_shapes.append([] if r == "NULL" else arr_ints(parsed, r))
    report(f"{tag}: constant_shapes", got_shapes == exp["constant_shapes"], dict(got=got_shapes, want=exp["constant_shapes"]))
    report(f"{tag}: coefficient_name_map", arr_strs(parsed, f["coefficient_name_map"]) == exp["coefficient_names"],
           dict(got=arr_strs(parsed, f["coefficient_name_map"]), want=exp["coefficient_names"]))
    report(f"{tag}: constant_name_map", arr_strs(parsed, f["constant_name_map"]) == exp["constant_names"],
           dict(got=arr_strs(parsed, f["constant_name_map"]), want=exp["constant_names"]))
    got = arr_ints(parsed, f["finite_element_hashes"])
    report(f"{tag}: finite_element_hashes", got == exp["finite_element_hashes"], dict(got=got, want=exp["finite_element_hashes"]))
    offs = arr_ints(parsed, f["form_integral_offsets"])
    ids = arr_ints(parsed, f["form_integral_ids"])
    kern = arr_strs(parsed, f["form_integrals"])
    kern = [k.lstrip("&") for k in (kern or [])]
    ok_shape = isinstance(offs, list) and len(offs) == len(ITG_TYPES) + 1 and offs[0] == 0 and isinstance(ids, list)
    report(f"{tag}: form_integral_offsets has one entry per ufcx integral type plus one, starting at 0", ok_shape,
           dict(offsets=offs))
    if not ok_shape:
        return
    report(f"{tag}: ids and kernels have offsets[-1] entries", len(ids) == len(kern) == offs[-1],
           dict(n_ids=len(ids), n_kernels=len(kern), last=offs[-1]))
    for t, typ in enumerate(ITG_TYPES):
        seg_ids = ids[offs[t]:offs[t + 1]]
        seg_k = kern[offs[t]:offs[t + 1]]
        report(f"{tag}: {typ}: ids non-decreasing inside the group",
               all(a <= b for a, b in zip(seg_ids, seg_ids[1:])), dict(ids=seg_ids))
        want = sorted(exp["per_type"][typ])
        got = sorted(zip(seg_ids, seg_k))
        report(f"{tag}: {typ}: the (id, kernel) pairs of the group are exactly the declared integrals of that id",
               got == want, dict(got=[(i, k[-24:]) for i, k in got], want=[(i, k[-24:]) for i, k in want]))
        for k in seg_k:
            ok = k in parsed["structs"] and parsed["structs"][k]["kind"] == "integral"
            if not ok:
                report(f"{tag}: {typ}: listed kernel object exists in the module", False, dict(kernel=k))
    al = parsed["aliases"].get(exp["alias"])
    report(f"{tag}: alias {exp['alias']} points at the form", al == ("form", name), dict(got=al))


def check_integral_objects(parsed, analysis, prefix, options, report, tag):
    """Per ufcx_integral: slot selection, enabled_coefficients length/values, kernel defined."""
    from ffcx import naming

    sname = np.dtype(options["scalar_type"]).name
    for fi, fd in enumerate(analysis.form_data):
        for itg_index, itg in enumerate(fd.integral_data):
            base = integral_base_name(fd, fi, itg_index, prefix)
            objs = [n for n, s in parsed["structs"].items() if s["kind"] == "integral" and n.startswith(base + "_")]
            report(f"{tag}: integral {itg.integral_type}{itg.subdomain_id}: at least one kernel object generated", bool(objs),
                   dict(base=base[-12:]))
            for n in objs:
                f = parsed["structs"][n]["fields"]
                slots = {k: v for k, v in f.items() if k.startswith("tabulate_tensor_")}
                nonnull = sorted(k for k, v in slots.items() if v != "NULL")
                report(f"{tag}: {itg.integral_type}: exactly the slot of the scalar type is non-NULL and names the kernel",
                       nonnull == [f"tabulate_tensor_{sname}"] and slots[nonnull[0]] == f"tabulate_tensor_{n}"
                       and f"tabulate_tensor_{n}" in parsed["funcs"], dict(slots=slots))
                en = f["enabled_coefficients"]
                want = [1 if e else 0 for e in itg.enabled_coefficients]
                got = arr_ints(parsed, en) if en != "NULL" else []
                report(f"{tag}: {itg.integral_type}: enabled_coefficients equals UFL's per-integral flags", got == want,
                       dict(got=got, want=want))
                ceh = re.sub(r"UINT64_C\((\d+)\)", r"\1", f["coordinate_element_hash"])
                report(f"{tag}: {itg.integral_type}: coordinate_element_hash",
                       int(ceh) == itg.domain.ufl_coordinate_element().basix_hash(), dict(got=ceh))
                dom = n[len(base) + 1:]
                report(f"{tag}: {itg.integral_type}: cell-type tag equals the kernel's cell type",
                       hasattr(basix.CellType, dom) and int(f["domain"]) == int(getattr(basix.CellType, dom)),
                       dict(domain=f["domain"], name=dom))


def kernels_of_factory(parsed):
    def kernels_of(name):
        return sorted(n[len(name) + 1:] for n, s in parsed["structs"].items()
                      if s["kind"] == "integral" and n.startswith(name + "_"))

    return kernels_of


def check_expressions(parsed, analysis, prefix, object_names, report, tag):
    from ffcx import naming

    for idx, (processed, points, original) in enumerate(analysis.expressions):
        name = naming.expression_name((original, points), prefix)
        st = parsed["structs"].get(name)
        if st is None:
            report(f"{tag}: expression object defined", False, dict(name=name[-12:]))
            continue
        f = st["fields"]
        report(f"{tag}: expr{idx}: num_points", int(f["num_points"]) == points.shape[0], dict(got=f["num_points"]))
        report(f"{tag}: expr{idx}: entity_dimension", int(f["entity_dimension"]) == points.shape[1], dict(got=f["entity_dimension"]))
        shape = list(original.ufl_shape)
        report(f"{tag}: expr{idx}: num_components == len(value_shape)", int(f["num_components"]) == len(shape),
               dict(got=f["num_components"], want=len(shape)))
        got = arr_ints(parsed, f["value_shape"]) if f["value_shape"] != "NULL" else []
        report(f"{tag}: expr{idx}: value_shape", got == shape, dict(got=got, want=shape))
        args = ufl.algorithms.extract_arguments(original)
        report(f"{tag}: expr{idx}: rank", int(f["rank"]) == len(args), dict(got=f["rank"]))
        coeffs = ufl.algorithms.extract_coefficients(processed)
        orig = ufl.algorithms.extract_coefficients(original)
        report(f"{tag}: expr{idx}: num_coefficients", int(f["num_coefficients"]) == len(coeffs), dict(got=f["num_coefficients"]))
        got = arr_ints(parsed, f["original_coefficient_positions"]) if f["original_coefficient_positions"] != "NULL" else []
        report(f"{tag}: expr{idx}: original_coefficient_positions", got == [orig.index(c) for c in coeffs], dict(got=got))
        consts = ufl.algorithms.analysis.extract_constants(processed)
        report(f"{tag}: expr{idx}: num_constants", int(f["num_constants"]) == len(consts), dict(got=f["num_constants"]))
        pa = parsed["arrays"].get(f["points"])
        # points is a floating array: re-parse from the raw items
        ename = object_names.get(id(original), idx)
        al = parsed["aliases"].get(f"expression_{prefix}_{ename}")
        report(f"{tag}: expr{idx}: alias points at the expression", al == ("expression", name), dict(got=al))
        sname = None
        slots = {k: v for k, v in f.items() if k.startswith("tabulate_tensor_")}
        nonnull = sorted(k for k, v in slots.items() if v != "NULL")
        report(f"{tag}: expr{idx}: one non-NULL kernel slot, function defined",
               len(nonnull) == 1 and slots[nonnull[0]] in parsed["funcs"], dict(slots=slots))


# --------------------------------------------------------------------------- numba side
def parse_numba(code):
    """Descriptor classes of a numba module: class name -> {field: python value or source text}."""
    tree = ast.parse(code)
    out = {}
    for node in tree.body:
        if isinstance(node, ast.ClassDef):
            fields = {}
            for st in node.body:
                if isinstance(st, ast.Assign) and len(st.targets) == 1 and isinstance(st.targets[0], ast.Name):
                    try:
                        fields[st.targets[0].id] = ast.literal_eval(st.value)
                    except Exception:  # noqa: BLE001
                        fields[st.targets[0].id] = ast.unparse(st.value)
            out[node.name] = fields
    funcs = [n.name for n in tree.body if isinstance(n, ast.FunctionDef)]
    assigns = {}
    for n in tree.body:
        if isinstance(n, ast.Assign) and len(n.targets) == 1 and isinstance(n.targets[0], ast.Name):
            assigns[n.targets[0].id] = ast.unparse(n.value)
    return dict(classes=out, funcs=funcs, assigns=assigns)
