"""Bessel functions of integer order without scipy (integral representations, Gauss-Legendre quadrature)."""
import numpy as np

_T, _WT = np.polynomial.legendre.leggauss(200)


def _gl(f, a, b):
    t = 0.5 * (b - a) * _T + 0.5 * (b + a)
    return 0.5 * (b - a) * float(np.sum(_WT * f(t)))


def jn(n, x):
    n = int(n)
    return _gl(lambda t: np.cos(n * t - x * np.sin(t)), 0.0, np.pi) / np.pi


def yn(n, x):
    n = int(n)
    if x <= 0:
        raise ValueError("math domain error")
    a = _gl(lambda t: np.sin(x * np.sin(t) - n * t), 0.0, np.pi) / np.pi
    # tail integral: integrand decays like exp(-x sinh t); cut where x sinh t - n t > 45
    T = 1.0
    while x * np.sinh(T) - abs(n) * T < 45.0:
        T += 0.5
    pieces = 40
    b = 0.0
    for k in range(pieces):
        lo, hi = T * k / pieces, T * (k + 1) / pieces
        b += _gl(lambda t: (np.exp(n * t) + (-1) ** n * np.exp(-n * t)) * np.exp(-x * np.sinh(t)), lo, hi)
    return a - b / np.pi


def iv(n, x):
    n = int(n)
    return _gl(lambda t: np.exp(x * np.cos(t)) * np.cos(n * t), 0.0, np.pi) / np.pi


def kv(n, x):
    n = int(n)
    if x <= 0:
        raise ValueError("math domain error")
    T = 1.0
    while x * np.cosh(T) - abs(n) * T < 45.0:
        T += 0.5
    pieces = 40
    return sum(_gl(lambda t: np.exp(-x * np.cosh(t)) * np.cosh(n * t), T * k / pieces, T * (k + 1) / pieces) for k in range(pieces))
