"""Round trip of depth-2 LNodes trees through the real formatters and an independent parser.

C: pycparser (ISO C grammar).  numba: Python's own `ast`.  Trees are compared structurally after
mapping both sides to one canonical tuple form; signs of numeric literals are folded on both sides
(`Neg(Literal(2))` and `Literal(-2)` denote the same C/Python expression `-2`).
"""

from __future__ import annotations

import ast as pyast
import itertools

import numpy as np

import ffcx.codegeneration.lnodes as L

INT, REAL = L.DataType.INT, L.DataType.REAL


# --------------------------------------------------------------------------- child / parent tables
def leaf(name="x", dtype=REAL):
    return L.Symbol(name, dtype)


def child_makers():
    """name -> function(dtype) building a small child expression of that class."""
    a, b, c = leaf("a"), leaf("b"), leaf("c")
    i, j = leaf("i", INT), leaf("j", INT)
    arr = leaf("arr")

    def mk(cls):
        return lambda: cls(a, b)

    makers = {
        "LiteralFloat+": lambda: L.LiteralFloat(2.5),
        "LiteralFloatWhole": lambda: L.LiteralFloat(3.0),
        "LiteralFloat-": lambda: L.LiteralFloat(-2.5),
        "LiteralComplex": lambda: L.LiteralFloat(1.5 - 2.25j),
        "LiteralComplexIm": lambda: L.LiteralFloat(2.5j),
        "LiteralComplexNegIm": lambda: L.LiteralFloat(-0.5j),
        "LiteralInt+": lambda: L.LiteralInt(3),
        "LiteralInt-": lambda: L.LiteralInt(-3),
        "Symbol": lambda: leaf("s"),
        "SymbolInt": lambda: leaf("n", INT),
        "ArrayAccess": lambda: arr[i],
        "MathFunction": lambda: L.MathFunction("sqrt", [a]),
        "MultiIndex": lambda: L.MultiIndex([i, j], [3, 4]),
        "Neg": lambda: L.Neg(a),
        "Not": lambda: L.Not(L.LT(a, b)),
        "Sum": lambda: L.Sum([a, b]),
        "Product": lambda: L.Product([a, b]),
        "Conditional": lambda: L.Conditional(L.LT(a, b), a, c),
    }
    for cls in (L.Add, L.Sub, L.Mul, L.Div, L.EQ, L.NE, L.LT, L.GT, L.LE, L.GE):
        makers[cls.__name__] = mk(cls)
    makers["And"] = lambda: L.And(L.LT(a, b), L.GT(a, c))
    makers["Or"] = lambda: L.Or(L.LT(a, b), L.GT(a, c))
    return makers


def parents():
    """name -> (arity, builder(children list))."""
    p, q, r = leaf("p"), leaf("q"), leaf("r")
    arr = leaf("arr")
    out = {
        "Neg": (1, lambda ch: L.Neg(ch[0])),
        "Not": (1, lambda ch: L.Not(ch[0])),
        "Sum2": (2, lambda ch: L.Sum(ch)),
        "Sum3": (3, lambda ch: L.Sum(ch)),
        "Product2": (2, lambda ch: L.Product(ch)),
        "Product3": (3, lambda ch: L.Product(ch)),
        "Conditional": (3, lambda ch: L.Conditional(ch[0], ch[1], ch[2])),
        "ArrayAccess1": (1, lambda ch: arr[ch[0]]),
        "ArrayAccess2": (2, lambda ch: arr[ch[0]][ch[1]]),
        "MathFunction1": (1, lambda ch: L.MathFunction("sqrt", ch)),
        "MathFunction2": (2, lambda ch: L.MathFunction("power", ch)),
        "AssignRhs": (1, lambda ch: L.Assign(leaf("lhs"), ch[0])),
        "AssignAddRhs": (1, lambda ch: L.AssignAdd(arr[leaf("k", INT)], ch[0])),
    }
    for cls in (L.Add, L.Sub, L.Mul, L.Div, L.EQ, L.NE, L.LT, L.GT, L.LE, L.GE, L.And, L.Or):
        out[cls.__name__] = (2, (lambda cls: lambda ch: cls(ch[0], ch[1]))(cls))
    return out


def default_child(parent, k):
    if parent in ("And", "Or", "Not") or (parent == "Conditional" and k == 0):
        return L.LT(leaf("u"), leaf("v"))
    if parent.startswith("ArrayAccess"):
        return leaf(f"i{k}", INT)
    return leaf(f"d{k}")


def triples():
    """All constructible (parent, position, child) depth-2 trees. Yields (key, tree | None, error)."""
    ch = child_makers()
    for pname, (arity, build) in parents().items():
        for k in range(arity):
            for cname, mk in ch.items():
                key = f"{pname}/{k}/{cname}"
                try:
                    children = [default_child(pname, m) for m in range(arity)]
                    children[k] = mk()
                    tree = build(children)
                except Exception as e:  # noqa: BLE001 - rejected by the real constructors: outside the quantifier
                    yield key, None, f"{type(e).__name__}: {e}"
                    continue
                yield key, tree, None


EXPR_PARENTS = ("Neg", "Not", "Sum2", "Product2", "Conditional", "MathFunction1", "Add", "Sub", "Mul", "Div", "EQ", "NE", "LT", "GT", "LE", "GE", "And", "Or")
SENSITIVE_CHILDREN = ("Sum", "Conditional", "Neg", "LT", "And", "LiteralFloat-", "Div", "Symbol")


def quads(full=False):
    """Depth-3 trees (outer parent, position, inner parent, position, child): every pair of expression operators with the
    children whose text begins or ends with a parenthesis, sign or operator (all children when `full`).  A formatter
    decision that looks at the TEXT of an operand instead of its class shows up only at this depth."""
    ch = child_makers()
    ps = parents()
    kinds = list(ch) if full else [c for c in ch if c in SENSITIVE_CHILDREN]
    for p1 in EXPR_PARENTS:
        a1, b1 = ps[p1]
        for k1 in range(a1):
            for p2 in EXPR_PARENTS:
                a2, b2 = ps[p2]
                for k2 in range(a2):
                    for cname in kinds:
                        # the child at position k2 only, and (once per inner parent) at EVERY position of the inner parent, so
                        # that the inner text both begins and ends with the child's text
                        for everywhere in ((False, True) if (k2 == 0 and a2 > 1) else (False,)):
                            key = f"{p1}/{k1}/{p2}/{'all' if everywhere else k2}/{cname}"
                            try:
                                inner = [ch[cname]() if everywhere else default_child(p2, m) for m in range(a2)]
                                inner[k2] = ch[cname]()
                                outer = [default_child(p1, m) for m in range(a1)]
                                outer[k1] = b2(inner)
                                tree = b1(outer)
                            except Exception as e:  # noqa: BLE001 - rejected by the real constructors
                                yield key, None, f"{type(e).__name__}: {e}"
                                continue
                            yield key, tree, None


# --------------------------------------------------------------------------- canonical form
def lit(v):
    if isinstance(v, complex):
        return ("clit", float(v.real) + 0.0, float(v.imag) + 0.0)
    return ("lit", float(v), "float")


def canon_l(e):
    """Canonical tuple of an LNodes expression (the tree the AST denotes)."""
    if isinstance(e, L.LiteralFloat):
        return lit(e.value)
    if isinstance(e, L.LiteralInt):
        return ("lit", float(int(e.value)), "int")
    if isinstance(e, L.Symbol):
        return ("name", e.name)
    if isinstance(e, L.MultiIndex):
        return canon_l(e.global_index)
    if isinstance(e, L.Neg):
        c = canon_l(e.arg)
        if c[0] == "lit":
            return ("lit", -c[1], c[2])
        if c[0] == "clit":
            return ("clit", -c[1], -c[2])
        return ("neg", c)
    if isinstance(e, L.Not):
        return ("not", canon_l(e.arg))
    if isinstance(e, L.NaryOp):
        cs = [canon_l(a) for a in e.args]
        acc = cs[0]
        for c in cs[1:]:
            acc = (e.op, acc, c)
        return acc
    if isinstance(e, L.AssignOp):
        return ("assign", e.op, canon_l(e.lhs), canon_l(e.rhs))
    if isinstance(e, L.BinOp):
        return (e.op, canon_l(e.lhs), canon_l(e.rhs))
    if isinstance(e, L.ArrayAccess):
        acc = ("name", e.array.name)
        for i in e.indices:
            acc = ("idx", acc, canon_l(i))
        return acc
    if isinstance(e, L.Conditional):
        return ("cond", canon_l(e.condition), canon_l(e.true), canon_l(e.false))
    if isinstance(e, L.MathFunction):
        return ("call", tuple(canon_l(a) for a in e.args))
    raise TypeError(type(e).__name__)


# ---- C
def parse_c_expr(text, statement=False):
    import pycparser
    from pycparser import c_ast

    src = "void f(void){ " + (text if statement else f"_r_ = {text};") + " }"
    tree = pycparser.CParser().parse(src)
    body = tree.ext[0].body.block_items
    assert len(body) == 1, "formatted text is not one statement"
    st = body[0]
    if statement:
        return canon_c(st)
    assert isinstance(st, c_ast.Assignment) and st.op == "="
    return canon_c(st.rvalue)


def canon_c(n):
    from pycparser import c_ast

    if isinstance(n, c_ast.Constant):
        v = n.value.rstrip("fFlLuU")
        if n.type == "int":
            return ("lit", float(int(v, 0)), "int")
        return ("lit", float(v), "float")
    if isinstance(n, c_ast.ID):
        return ("name", n.name)
    if isinstance(n, c_ast.UnaryOp):
        c = canon_c(n.expr)
        if n.op == "-":
            if c[0] == "clit":
                return ("clit", -c[1], -c[2])
            return ("lit", -c[1], c[2]) if c[0] == "lit" else ("neg", c)
        if n.op == "!":
            return ("not", c)
        if n.op == "+":
            return c
        return ("unary" + n.op, c)
    if isinstance(n, c_ast.BinaryOp):
        l, r = canon_c(n.left), canon_c(n.right)
        # complex literal (re+I*im)
        if n.op == "+" and l[0] == "lit" and r[0] == "*" and r[1] == ("name", "I") and r[2][0] == "lit":
            return ("clit", l[1], r[2][1])
        return (n.op, l, r)
    if isinstance(n, c_ast.TernaryOp):
        return ("cond", canon_c(n.cond), canon_c(n.iftrue), canon_c(n.iffalse))
    if isinstance(n, c_ast.ArrayRef):
        return ("idx", canon_c(n.name), canon_c(n.subscript))
    if isinstance(n, c_ast.FuncCall):
        return ("call", tuple(canon_c(a) for a in (n.args.exprs if n.args else [])))
    if isinstance(n, c_ast.Assignment):
        return ("assign", n.op, canon_c(n.lvalue), canon_c(n.rvalue))
    raise TypeError(type(n).__name__)


# ---- Python
_PYBIN = {pyast.Add: "+", pyast.Sub: "-", pyast.Mult: "*", pyast.Div: "/"}
_PYCMP = {pyast.Eq: "==", pyast.NotEq: "!=", pyast.Lt: "<", pyast.Gt: ">", pyast.LtE: "<=", pyast.GtE: ">="}


def parse_py_expr(text, statement=False):
    tree = pyast.parse(text.strip(), mode="exec" if statement else "eval")
    if statement:
        assert len(tree.body) == 1
        st = tree.body[0]
        if isinstance(st, pyast.Assign):
            return ("assign", "=", canon_py(st.targets[0]), canon_py(st.value))
        if isinstance(st, pyast.AugAssign):
            return ("assign", _PYBIN[type(st.op)] + "=", canon_py(st.target), canon_py(st.value))
        raise TypeError("statement")
    return canon_py(tree.body)


def canon_py(n):
    if isinstance(n, pyast.Constant):
        if isinstance(n.value, complex):
            return ("clit", n.value.real, n.value.imag)
        return ("lit", float(n.value), "int" if isinstance(n.value, int) and not isinstance(n.value, bool) else "float")
    if isinstance(n, pyast.Name):
        return ("name", n.id)
    if isinstance(n, pyast.UnaryOp):
        c = canon_py(n.operand)
        if isinstance(n.op, pyast.USub):
            if c[0] == "clit":
                return ("clit", -c[1], -c[2])
            return ("lit", -c[1], c[2]) if c[0] == "lit" else ("neg", c)
        if isinstance(n.op, pyast.Not):
            return ("not", c)
        return ("unary", c)
    if isinstance(n, pyast.BinOp):
        l, r = canon_py(n.left), canon_py(n.right)
        op = _PYBIN[type(n.op)]
        if op in "+-" and l[0] == "lit" and r[0] == "clit" and r[1] == 0.0:
            return ("clit", l[1], r[2] if op == "+" else -r[2])
        return (op, l, r)
    if isinstance(n, pyast.BoolOp):
        op = "&&" if isinstance(n.op, pyast.And) else "||"
        cs = [canon_py(v) for v in n.values]
        acc = cs[0]
        for c in cs[1:]:
            acc = (op, acc, c)
        return acc
    if isinstance(n, pyast.Compare):
        if len(n.ops) != 1:
            return ("chained-comparison", len(n.ops))
        return (_PYCMP[type(n.ops[0])], canon_py(n.left), canon_py(n.comparators[0]))
    if isinstance(n, pyast.IfExp):
        return ("cond", canon_py(n.test), canon_py(n.body), canon_py(n.orelse))
    if isinstance(n, pyast.Subscript):
        acc = canon_py(n.value)
        idx = n.slice.elts if isinstance(n.slice, pyast.Tuple) else [n.slice]
        for i in idx:
            acc = ("idx", acc, canon_py(i))
        return acc
    if isinstance(n, pyast.Call):
        return ("call", tuple(canon_py(a) for a in n.args))
    if isinstance(n, pyast.Attribute):
        return ("name", pyast.unparse(n))
    raise TypeError(type(n).__name__)


def roundtrip(tree, language):
    """-> (ok, text, got, want, error)"""
    if language == "C":
        from ffcx.codegeneration.C.formatter import Formatter
    else:
        from ffcx.codegeneration.numba.formatter import Formatter
    fmt = Formatter("float64")
    statement = isinstance(tree, L.AssignOp)
    try:
        text = fmt(tree)
    except Exception as e:  # noqa: BLE001
        return False, None, None, None, f"formatter raised {type(e).__name__}: {e}"
    want = canon_l(tree)
    try:
        got = parse_c_expr(text, statement) if language == "C" else parse_py_expr(text, statement)
    except Exception as e:  # noqa: BLE001
        return False, text, None, want, f"does not parse: {type(e).__name__}: {str(e)[:120]}"
    return got == want, text, got, want, None


def wrapped(tree, k, language):
    """Did the real formatter parenthesise child k of the depth-2 tree? (observed rule table)"""
    return None
