"""Concrete evaluation of LNodes statement lists with exact rational arithmetic (polynomial identity testing).

Inputs that are not defined inside the code (symbols, arrays, math functions) get deterministic pseudo-random rational
values derived from a seed and their name/indices, so two programs are evaluated on the same inputs."""
from __future__ import annotations

import zlib
from fractions import Fraction

import numpy as np

import ffcx.codegeneration.lnodes as L


def _rnd(seed, *key):
    h = zlib.crc32(repr((seed,) + key).encode())
    return Fraction((h % 2003) - 1001, 97) or Fraction(1, 97)


class Eval:
    def __init__(self, seed):
        self.seed = seed
        self.vars = {}
        self.arrays = {}  # name -> dict(index tuple -> value) for arrays written by the code
        self.decl_values = {}
        self.A = {}

    def ev(self, e):
        if isinstance(e, L.LiteralFloat):
            v = e.value
            return Fraction(v.real).limit_denominator(10 ** 12) if not isinstance(v, complex) else Fraction(v.real) + 7 * Fraction(v.imag)
        if isinstance(e, L.LiteralInt):
            return Fraction(int(e.value))
        if isinstance(e, L.Symbol):
            if e.name in self.vars:
                return self.vars[e.name]
            if e.dtype == L.DataType.INT:
                return Fraction(zlib.crc32(repr((self.seed, e.name)).encode()) % 3)
            return _rnd(self.seed, "sym", e.name)
        if isinstance(e, L.MultiIndex):
            return self.ev(e.global_index)
        if isinstance(e, L.Neg):
            return -self.ev(e.arg)
        if isinstance(e, L.Add):
            return self.ev(e.lhs) + self.ev(e.rhs)
        if isinstance(e, L.Sub):
            return self.ev(e.lhs) - self.ev(e.rhs)
        if isinstance(e, L.Mul):
            return self.ev(e.lhs) * self.ev(e.rhs)
        if isinstance(e, L.Div):
            d = self.ev(e.rhs)
            return self.ev(e.lhs) / d if d != 0 else _rnd(self.seed, "div0")
        if isinstance(e, L.Sum):
            return sum((self.ev(a) for a in e.args), Fraction(0))
        if isinstance(e, L.Product):
            acc = Fraction(1)
            for a in e.args:
                acc *= self.ev(a)
            return acc
        if isinstance(e, L.ArrayAccess):
            idx = tuple(int(self.ev(i)) for i in e.indices)
            name = e.array.name
            if name in self.arrays and idx in self.arrays[name]:
                return self.arrays[name][idx]
            if name in self.decl_values:
                try:
                    return Fraction(float(self.decl_values[name][idx])).limit_denominator(10 ** 12)
                except Exception:  # noqa: BLE001
                    pass
            if name in self.arrays:
                return Fraction(0) if self.arrays[name].get("__zero__") else _rnd(self.seed, "arr", name, idx)
            return _rnd(self.seed, "arr", name, idx)
        if isinstance(e, L.MathFunction):
            return _rnd(self.seed, "fun", e.function, tuple(self.ev(a) for a in e.args))
        if isinstance(e, L.Conditional):
            return self.ev(e.true) if self.evb(e.condition) else self.ev(e.false)
        if isinstance(e, (L.LT, L.LE, L.GT, L.GE, L.EQ, L.NE, L.And, L.Or, L.Not)):
            return Fraction(1 if self.evb(e) else 0)
        raise TypeError(type(e).__name__)

    def evb(self, e):
        if isinstance(e, L.LT):
            return self.ev(e.lhs) < self.ev(e.rhs)
        if isinstance(e, L.LE):
            return self.ev(e.lhs) <= self.ev(e.rhs)
        if isinstance(e, L.GT):
            return self.ev(e.lhs) > self.ev(e.rhs)
        if isinstance(e, L.GE):
            return self.ev(e.lhs) >= self.ev(e.rhs)
        if isinstance(e, L.EQ):
            return self.ev(e.lhs) == self.ev(e.rhs)
        if isinstance(e, L.NE):
            return self.ev(e.lhs) != self.ev(e.rhs)
        if isinstance(e, L.And):
            return self.evb(e.lhs) and self.evb(e.rhs)
        if isinstance(e, L.Or):
            return self.evb(e.lhs) or self.evb(e.rhs)
        if isinstance(e, L.Not):
            return not self.evb(e.arg)
        return self.ev(e) != 0

    def run(self, s):
        if isinstance(s, list):
            for x in s:
                self.run(x)
        elif isinstance(s, L.StatementList):
            for x in s.statements:
                self.run(x)
        elif isinstance(s, L.Section):
            for d in s.declarations:
                self.run(d)
            for x in s.statements:
                self.run(x)
        elif isinstance(s, L.Comment):
            pass
        elif isinstance(s, L.VariableDecl):
            self.vars[s.symbol.name] = self.ev(s.value) if s.value is not None else Fraction(0)
        elif isinstance(s, L.ArrayDecl):
            self.arrays[s.symbol.name] = {}
            if s.values is not None:
                vals = np.asarray(s.values)
                if vals.size == 1:
                    self.arrays[s.symbol.name]["__zero__"] = float(vals.flat[0]) == 0.0
                else:
                    self.decl_values[s.symbol.name] = vals
        elif isinstance(s, L.ForRange):
            b, e = int(self.ev(s.begin)), int(self.ev(s.end))
            name = s.index.name
            saved = self.vars.get(name)
            for k in range(b, e):
                self.vars[name] = Fraction(k)
                self.run(s.body)
            if saved is None:
                self.vars.pop(name, None)
            else:
                self.vars[name] = saved
        elif isinstance(s, L.Statement):
            e = s.expr
            if not isinstance(e, L.AssignOp):
                raise TypeError("expression statement")
            val = self.ev(e.rhs)
            lhs = e.lhs
            if isinstance(lhs, L.ArrayAccess):
                idx = tuple(int(self.ev(i)) for i in lhs.indices)
                store = self.A if lhs.array.name == "A" else self.arrays.setdefault(lhs.array.name, {})
                old = store.get(idx, Fraction(0))
            else:
                store, idx = self.vars, lhs.name
                old = self.vars.get(idx, Fraction(0))
            if isinstance(e, L.AssignAdd):
                store[idx] = old + val
            elif isinstance(e, L.Assign):
                store[idx] = val
            elif isinstance(e, L.AssignSub):
                store[idx] = old - val
            elif isinstance(e, L.AssignMul):
                store[idx] = old * val
            elif isinstance(e, L.AssignDiv):
                store[idx] = old / val
        else:
            raise TypeError(type(s).__name__)


def outputs(code, seed):
    ev = Eval(seed)
    ev.run(code)
    out = dict(A=ev.A)
    return ev
