"""Numeric execution of a generated LNodes kernel (float / complex) on given UFCx argument arrays.

This is the 'run the kernel' half of the bounded kernel-level contracts (DESIGN.md 2.4): no C compiler, the kernel
program returned by the real generators is interpreted directly."""
from __future__ import annotations

import cmath
import math

import numpy as np

import ffcx.codegeneration.lnodes as L

from runtime import bessel as _bessel


def _fn(name, args, complex_mode):
    m = cmath if complex_mode else math
    a = args
    if name == "sqrt":
        return m.sqrt(a[0])
    if name == "abs":
        return abs(a[0])
    if name in ("cos", "sin", "tan", "acos", "asin", "atan", "cosh", "sinh", "tanh", "exp"):
        return getattr(m, name)(a[0])
    if name == "ln":
        return m.log(a[0])
    if name == "power":
        return a[0] ** a[1]
    if name == "erf":
        return math.erf(a[0].real if isinstance(a[0], complex) else a[0])
    if name in ("atan2", "atan_2"):
        return math.atan2(a[0], a[1])
    if name == "min_value":
        return min(a[0], a[1])
    if name == "max_value":
        return max(a[0], a[1])
    if name == "real":
        return complex(a[0]).real
    if name == "imag":
        return complex(a[0]).imag
    if name == "conj":
        return complex(a[0]).conjugate() if complex_mode else a[0]
    if name in ("bessel_j", "bessel_y", "bessel_i", "bessel_k"):
        f = {"bessel_j": _bessel.jn, "bessel_y": _bessel.yn, "bessel_i": _bessel.iv, "bessel_k": _bessel.kv}[name]
        return f(int(a[0]), float(a[1].real if isinstance(a[1], complex) else a[1]))
    raise NotImplementedError(f"math function {name}")


class Run:
    def __init__(self, arrays, complex_mode=False):
        self.arr = dict(arrays)  # name -> numpy array (kernel arguments), later also declared arrays
        self.vars = {}
        self.vtype = {}  # declared dtype of scalars and arrays: C converts on assignment (complex -> real drops the imaginary part)
        self.complex_mode = complex_mode

    def conv(self, name, val):
        dt = self.vtype.get(name)
        if dt == L.DataType.REAL and isinstance(val, complex | np.complexfloating):
            return val.real
        if dt == L.DataType.INT:
            return int(val.real if isinstance(val, complex | np.complexfloating) else val)
        return val

    def ev(self, e):
        if isinstance(e, L.LiteralFloat):
            return e.value
        if isinstance(e, L.LiteralInt):
            return int(e.value)
        if isinstance(e, L.Symbol):
            return self.vars[e.name]
        if isinstance(e, L.MultiIndex):
            return self.ev(e.global_index)
        if isinstance(e, L.Neg):
            return -self.ev(e.arg)
        if isinstance(e, L.Add):
            return self.ev(e.lhs) + self.ev(e.rhs)
        if isinstance(e, L.Sub):
            return self.ev(e.lhs) - self.ev(e.rhs)
        if isinstance(e, L.Mul):
            return self.ev(e.lhs) * self.ev(e.rhs)
        if isinstance(e, L.Div):
            return self.ev(e.lhs) / self.ev(e.rhs)
        if isinstance(e, L.Sum):
            acc = 0
            for a in e.args:
                acc = acc + self.ev(a)
            return acc
        if isinstance(e, L.Product):
            acc = 1
            for a in e.args:
                acc = acc * self.ev(a)
            return acc
        if isinstance(e, L.ArrayAccess):
            idx = tuple(int(self.ev(i)) for i in e.indices)
            a = self.arr[e.array.name]
            if any(i < 0 or i >= n for i, n in zip(idx, a.shape)) or len(idx) != a.ndim:
                raise IndexError(f"{e.array.name}{list(idx)} outside {a.shape}")
            return a[idx]
        if isinstance(e, L.MathFunction):
            return _fn(e.function, [self.ev(a) for a in e.args], self.complex_mode)
        if isinstance(e, L.Conditional):
            return self.ev(e.true) if self.evb(e.condition) else self.ev(e.false)
        if isinstance(e, L.LT | L.LE | L.GT | L.GE | L.EQ | L.NE | L.And | L.Or | L.Not):
            return 1.0 if self.evb(e) else 0.0
        raise TypeError(type(e).__name__)

    def _re(self, v):
        return v.real if isinstance(v, complex) else v

    def evb(self, e):
        if isinstance(e, L.LT):
            return self._re(self.ev(e.lhs)) < self._re(self.ev(e.rhs))
        if isinstance(e, L.LE):
            return self._re(self.ev(e.lhs)) <= self._re(self.ev(e.rhs))
        if isinstance(e, L.GT):
            return self._re(self.ev(e.lhs)) > self._re(self.ev(e.rhs))
        if isinstance(e, L.GE):
            return self._re(self.ev(e.lhs)) >= self._re(self.ev(e.rhs))
        if isinstance(e, L.EQ):
            return self.ev(e.lhs) == self.ev(e.rhs)
        if isinstance(e, L.NE):
            return self.ev(e.lhs) != self.ev(e.rhs)
        if isinstance(e, L.And):
            return self.evb(e.lhs) and self.evb(e.rhs)
        if isinstance(e, L.Or):
            return self.evb(e.lhs) or self.evb(e.rhs)
        if isinstance(e, L.Not):
            return not self.evb(e.arg)
        return bool(self.ev(e))

    def run(self, s):
        if isinstance(s, L.StatementList):
            for x in s.statements:
                self.run(x)
        elif isinstance(s, L.Section):
            for d in s.declarations:
                self.run(d)
            for x in s.statements:
                self.run(x)
        elif isinstance(s, L.Comment):
            pass
        elif isinstance(s, L.VariableDecl):
            self.vtype[s.symbol.name] = s.symbol.dtype
            self.vars[s.symbol.name] = self.conv(s.symbol.name, self.ev(s.value)) if s.value is not None else 0.0
        elif isinstance(s, L.ArrayDecl):
            dt = complex if (self.complex_mode and s.symbol.dtype == L.DataType.SCALAR) else (int if s.symbol.dtype == L.DataType.INT else float)
            self.vtype[s.symbol.name] = s.symbol.dtype
            if s.values is None:
                self.arr[s.symbol.name] = np.zeros(s.sizes, dtype=dt)
            else:
                vals = np.asarray(s.values)
                if vals.size == 1 and tuple(vals.shape) != tuple(s.sizes):
                    self.arr[s.symbol.name] = np.full(s.sizes, vals.flat[0], dtype=dt)
                else:
                    self.arr[s.symbol.name] = np.array(vals, dtype=dt if dt is not int else vals.dtype).reshape(s.sizes)
        elif isinstance(s, L.ForRange):
            b, e = int(self.ev(s.begin)), int(self.ev(s.end))
            name = s.index.name
            for k in range(b, e):
                self.vars[name] = k
                self.run(s.body)
        elif isinstance(s, L.Statement):
            e = s.expr
            val = self.ev(e.rhs)
            lhs = e.lhs
            if isinstance(lhs, L.ArrayAccess):
                idx = tuple(int(self.ev(i)) for i in lhs.indices)
                a = self.arr[lhs.array.name]
                if any(i < 0 or i >= n for i, n in zip(idx, a.shape)):
                    raise IndexError(f"write {lhs.array.name}{list(idx)} outside {a.shape}")
                val = self.conv(lhs.array.name, val)
                if isinstance(e, L.AssignAdd):
                    a[idx] += val
                elif isinstance(e, L.Assign):
                    a[idx] = val
                else:
                    raise TypeError(type(e).__name__)
            else:
                if isinstance(e, L.AssignAdd):
                    self.vars[lhs.name] = self.conv(lhs.name, self.vars[lhs.name] + val)
                elif isinstance(e, L.Assign):
                    self.vars[lhs.name] = self.conv(lhs.name, val)
                else:
                    raise TypeError(type(e).__name__)
        else:
            raise TypeError(type(s).__name__)


def run_kernel(program, A, w, c, coordinate_dofs, entity_local_index, quadrature_permutation, complex_mode=False):
    r = Run(dict(A=A, w=w, c=c, coordinate_dofs=coordinate_dofs, entity_local_index=np.asarray(entity_local_index, dtype=int),
                 quadrature_permutation=np.asarray(quadrature_permutation, dtype=int)), complex_mode)
    r.run(program)
    return A
