"""Independent numeric reference for element tensors on AFFINE SIMPLEX cells (bounded kernel-level contract).

The original UFL form (only derivative expansion and algebra lowering applied - no pull-backs, no geometry lowering, no
FFCx code) is evaluated with UFL's own pointwise evaluator at physical quadrature points; arguments and coefficients are
callables built directly from basix tabulations.  Supported: identity-mapped and Piola-mapped basix elements, blocked
(non-symmetric), mixed and enriched elements; cell and exterior-facet integrals; SpatialCoordinate, FacetNormal,
CellVolume, Circumradius, FacetArea via explicit geometry.  Anything else raises Unsupported (the form is skipped)."""
from __future__ import annotations

import itertools

import basix
import basix.ufl
import numpy as np
import ufl
import ufl.algorithms
import ufl.classes as U


class Unsupported(Exception):
    pass


# ------------------------------------------------------------------------------------------------ geometry
class Cell:
    def __init__(self, cellname, vertices):
        self.cellname = cellname
        self.ct = getattr(basix.CellType, cellname)
        self.v = np.asarray(vertices, dtype=float)
        self.tdim = len(basix.topology(self.ct)) - 1
        self.gdim = self.v.shape[1]
        if self.gdim != self.tdim:
            raise Unsupported("manifold geometry")
        self.J = (self.v[1:] - self.v[0]).T  # gdim x tdim
        self.detJ = float(np.linalg.det(self.J))
        self.K = np.linalg.inv(self.J)

    def push(self, X):
        return self.v[0] + self.J @ np.asarray(X)

    def pull(self, x):
        return self.K @ (np.asarray(x, dtype=float) - self.v[0])

    def volume(self):
        ref = {"interval": 1.0, "triangle": 0.5, "tetrahedron": 1 / 6}[self.cellname]
        return abs(self.detJ) * ref

    def facet(self, f):
        topo = basix.topology(self.ct)[self.tdim - 1][f]
        return self.v[list(topo)]

    def facet_measure(self, f):
        p = self.facet(f)
        if self.tdim == 1:
            return 1.0
        if self.tdim == 2:
            return float(np.linalg.norm(p[1] - p[0]))
        return 0.5 * float(np.linalg.norm(np.cross(p[1] - p[0], p[2] - p[0])))

    def facet_normal(self, f):
        p = self.facet(f)
        c = self.v.mean(axis=0)
        if self.tdim == 1:
            n = np.array([1.0])
        elif self.tdim == 2:
            t = p[1] - p[0]
            n = np.array([t[1], -t[0]])
        else:
            n = np.cross(p[1] - p[0], p[2] - p[0])
        n = n / np.linalg.norm(n)
        if np.dot(n, p.mean(axis=0) - c) < 0:
            n = -n
        return n

    def circumradius(self):
        v = self.v
        if self.tdim == 1:
            return 0.5 * abs(v[1][0] - v[0][0])
        if self.tdim == 2:
            a, b, c = (np.linalg.norm(v[i] - v[j]) for i, j in ((1, 2), (0, 2), (0, 1)))
            return a * b * c / (4 * self.volume())
        A = 2 * (v[1:] - v[0])
        rhs = np.sum(v[1:] ** 2 - v[0] ** 2, axis=1)
        center = np.linalg.solve(A, rhs)
        return float(np.linalg.norm(center - v[0]))


# ------------------------------------------------------------------------------------------------ elements
def ref_tab(el, nd, X):
    """([derivative index][dof][reference value component], [(map kind, value range)]) of a basix.ufl element at X."""
    if isinstance(el, basix.ufl._BlockedElement):
        sub, _ = ref_tab(el._sub_element, nd, X)  # [d][n][1]
        bs = el.block_size
        if int(np.prod(el.reference_value_shape)) != bs or sub.shape[2] != 1:
            raise Unsupported("blocked element of a non-scalar element")
        out = np.zeros((sub.shape[0], sub.shape[1] * bs, bs))
        for n in range(sub.shape[1]):
            for c in range(bs):
                out[:, n * bs + c, c] = sub[:, n, 0]
        return out, [("symmetric" if el._has_symmetry else "identity", 0, bs)]
    if isinstance(el, basix.ufl._MixedElement):
        parts = [ref_tab(e, nd, X) for e in el.sub_elements]
        ndofs = sum(p[0].shape[1] for p in parts)
        vs = sum(p[0].shape[2] for p in parts)
        out = np.zeros((parts[0][0].shape[0], ndofs, vs))
        maps = []
        d0 = v0 = 0
        for t, m in parts:
            out[:, d0 : d0 + t.shape[1], v0 : v0 + t.shape[2]] = t
            if any(kind == "symmetric" for kind, _, _ in m):
                raise Unsupported("symmetric element inside a mixed element")
            maps += [(kind, v0 + a, v0 + b) for kind, a, b in m]
            d0 += t.shape[1]
            v0 += t.shape[2]
        return out, maps
    if isinstance(el, basix.ufl._BasixElement):
        t = el._element.tabulate(nd, np.asarray([X], dtype=float))  # [d][1][dofs][vs]
        kind = {basix.MapType.identity: "identity", basix.MapType.contravariantPiola: "contravariant",
                basix.MapType.covariantPiola: "covariant"}.get(el.map_type)
        if kind is None:
            raise Unsupported(f"map type {el.map_type}")
        return t[:, 0], [(kind, 0, t.shape[3])]
    raise Unsupported(f"element class {type(el).__name__}")


def _deriv_index(tdim, counts):
    return basix.index(*counts)


class FEFunction:
    """x -> value (nested tuple) of sum_d w_d phi_d(x) and its derivatives, on an affine cell."""

    def __init__(self, el, cell: Cell, dofs):
        self.el, self.cell, self.w = el, cell, np.asarray(dofs)
        self.shape = tuple(el.reference_value_shape)
        self._cache = {}

    def _tab(self, X, nd):
        key = (tuple(np.round(X, 14)), nd)
        if key not in self._cache:
            self._cache[key] = ref_tab(self.el, nd, X)
        return self._cache[key]

    def __call__(self, x, derivatives=()):
        cell = self.cell
        X = cell.pull(x)
        nd = len(derivatives)
        tab, maps = self._tab(X, nd)
        tdim = cell.tdim
        # physical derivative d/dx_{k1}..d/dx_{km} = sum_l K[l1,k1]..K[lm,km] d/dX_{l1}..d/dX_{lm}
        val = np.zeros(tab.shape[2], dtype=self.w.dtype if np.iscomplexobj(self.w) else float)
        for ls in itertools.product(range(tdim), repeat=nd):
            coef = 1.0
            for l, k in zip(ls, derivatives):
                coef *= cell.K[l, k]
            if coef == 0.0:
                continue
            counts = [0] * tdim
            for l in ls:
                counts[l] += 1
            t = tab[_deriv_index(tdim, counts)]  # [dof][vs]
            val = val + coef * (self.w @ t)
        out = np.array(val)
        for kind, a, b in maps:
            if kind == "contravariant":
                out[a:b] = (cell.J @ val[a:b]) / cell.detJ
            elif kind == "covariant":
                out[a:b] = cell.K.T @ val[a:b]
        if maps and maps[0][0] == "symmetric":
            n = self.el._block_shape[0]
            pos = {}
            k = 0
            for i in range(n):
                for j in range(i + 1):
                    pos[(i, j)] = pos[(j, i)] = k
                    k += 1
            return tuple(tuple(out[pos[(i, j)]] for j in range(n)) for i in range(n))
        if self.shape == ():
            return out[0]
        return _nest(out, self.shape)


def _nest(flat, shape):
    if len(shape) == 1:
        return tuple(flat)
    step = int(np.prod(shape[1:]))
    return tuple(_nest(flat[i * step : (i + 1) * step], shape[1:]) for i in range(shape[0]))


# ------------------------------------------------------------------------------------------------ UFL evaluation
class Side:
    """Everything that depends on which cell a restricted terminal lives on."""

    def __init__(self, cell: Cell, facet, functions, normal_sign=1.0):
        self.cell, self.facet, self.functions, self.normal_sign = cell, facet, functions, normal_sign


class Evaluator:
    """Pointwise value of a UFL expression (derivatives expanded, algebra lowered; no pull-backs, no geometry lowering)
    at a physical point x.  sides: {None or '+': Side, '-': Side}; constants: {Constant: nested tuple or scalar}."""

    def __init__(self, sides, constants, complex_mode):
        self.sides, self.constants, self.complex_mode = sides, constants, complex_mode

    def __call__(self, e, x):
        self.x = x
        self.memo = {}
        return self.ev(e, (), {}, None, ())

    def ev(self, e, comp, env, r, ders):
        if isinstance(e, U.Terminal):
            return self._ev(e, comp, env, r, ders)
        key = (id(e), comp, tuple(env[i] for i in e.ufl_free_indices), r, ders)
        try:
            return self.memo[key]
        except KeyError:
            v = self.memo[key] = self._ev(e, comp, env, r, ders)
            return v

    def side(self, r):
        if r in self.sides:
            return self.sides[r]
        if r is None and "+" in self.sides:
            return self.sides["+"]
        raise Unsupported(f"restriction {r!r}")

    # one handler per UFL class (looked up through the MRO once per concrete class)
    def _ev(self, e, comp, env, r, ders):
        t = type(e)
        h = self._dispatch.get(t)
        if h is None:
            for klass in t.__mro__:
                h = self._handlers.get(klass)
                if h is not None:
                    break
            else:
                raise Unsupported(f"UFL node {t.__name__}")
            self._dispatch[t] = h
        if ders and h not in self._derivative_ok:
            raise Unsupported(f"derivative of {t.__name__} after expand_derivatives")
        return h(self, e, comp, env, r, ders)

    def h_zero(self, e, comp, env, r, ders):
        return 0.0

    def h_complex(self, e, comp, env, r, ders):
        return 0.0 if ders else complex(e)

    def h_scalar(self, e, comp, env, r, ders):
        return 0.0 if ders else float(e)

    def h_identity(self, e, comp, env, r, ders):
        return 0.0 if ders else (1.0 if comp[0] == comp[1] else 0.0)

    def h_restricted(self, e, comp, env, r, ders):
        return self.ev(e.ufl_operands[0], comp, env, e.side(), ders)

    def h_variable(self, e, comp, env, r, ders):
        return self.ev(e.ufl_operands[0], comp, env, r, ders)

    def h_indexed(self, e, comp, env, r, ders):
        A, mi = e.ufl_operands
        if comp:
            raise Unsupported("component of Indexed")
        c = tuple(int(i) if isinstance(i, U.FixedIndex) else env[i.count()] for i in mi)
        return self.ev(A, c, env, r, ders)

    def h_component_tensor(self, e, comp, env, r, ders):
        A, mi = e.ufl_operands
        env2 = dict(env)
        for i, c in zip(mi, comp):
            env2[i.count()] = c
        return self.ev(A, (), env2, r, ders)

    def h_index_sum(self, e, comp, env, r, ders):
        A, mi = e.ufl_operands
        (i,) = mi
        tot = 0.0
        for k in range(e.dimension()):
            env2 = dict(env)
            env2[i.count()] = k
            tot = tot + self.ev(A, comp, env2, r, ders)
        return tot

    def h_list_tensor(self, e, comp, env, r, ders):
        return self.ev(e.ufl_operands[comp[0]], comp[1:], env, r, ders)

    def h_grad(self, e, comp, env, r, ders):
        return self.ev(e.ufl_operands[0], comp[:-1], env, r, ders + (comp[-1],))

    def h_sum(self, e, comp, env, r, ders):
        return self.ev(e.ufl_operands[0], comp, env, r, ders) + self.ev(e.ufl_operands[1], comp, env, r, ders)

    def h_product(self, e, comp, env, r, ders):
        return self.ev(e.ufl_operands[0], (), env, r, ()) * self.ev(e.ufl_operands[1], (), env, r, ())

    def h_division(self, e, comp, env, r, ders):
        return self.ev(e.ufl_operands[0], (), env, r, ()) / self.ev(e.ufl_operands[1], (), env, r, ())

    def h_power(self, e, comp, env, r, ders):
        a, b = (self.ev(o, (), env, r, ()) for o in e.ufl_operands)
        return a**b

    def h_abs(self, e, comp, env, r, ders):
        return abs(self.ev(e.ufl_operands[0], comp, env, r, ()))

    def h_conj(self, e, comp, env, r, ders):
        v = self.ev(e.ufl_operands[0], comp, env, r, ())
        return v.conjugate() if isinstance(v, complex) else v

    def h_real(self, e, comp, env, r, ders):
        return complex(self.ev(e.ufl_operands[0], comp, env, r, ())).real

    def h_imag(self, e, comp, env, r, ders):
        return complex(self.ev(e.ufl_operands[0], comp, env, r, ())).imag

    def h_conditional(self, e, comp, env, r, ders):
        c, t, f = e.ufl_operands
        return self.ev(t, comp, env, r, ()) if self.cond(c, env, r) else self.ev(f, comp, env, r, ())

    def h_min(self, e, comp, env, r, ders):
        return min(self._re(self.ev(o, (), env, r, ())) for o in e.ufl_operands)

    def h_max(self, e, comp, env, r, ders):
        return max(self._re(self.ev(o, (), env, r, ())) for o in e.ufl_operands)

    def h_math(self, e, comp, env, r, ders):
        return self.math(e, env, r)

    def h_terminal(self, e, comp, env, r, ders):
        return self.terminal(e, comp, r, ders)

    _handlers = {
        U.Zero: h_zero, U.ComplexValue: h_complex, U.ScalarValue: h_scalar, U.Identity: h_identity, U.Restricted: h_restricted,
        U.Variable: h_variable, U.Indexed: h_indexed, U.ComponentTensor: h_component_tensor, U.IndexSum: h_index_sum,
        U.ListTensor: h_list_tensor, U.Grad: h_grad, U.Sum: h_sum, U.Product: h_product, U.Division: h_division, U.Power: h_power,
        U.Abs: h_abs, U.Conj: h_conj, U.Real: h_real, U.Imag: h_imag, U.Conditional: h_conditional, U.MinValue: h_min,
        U.MaxValue: h_max, U.MathFunction: h_math, U.Atan2: h_math, U.BesselFunction: h_math, U.Terminal: h_terminal,
    }
    _derivative_ok = {h_zero, h_complex, h_scalar, h_identity, h_restricted, h_variable, h_indexed, h_component_tensor, h_index_sum,
                      h_list_tensor, h_grad, h_sum, h_terminal}
    _dispatch: dict = {}

    @staticmethod
    def _re(v):
        if isinstance(v, complex):
            if v.imag != 0:
                raise Unsupported("ordering of complex values")
            return v.real
        return v

    def cond(self, c, env, r):
        ev = self.ev
        if isinstance(c, U.AndCondition):
            return self.cond(c.ufl_operands[0], env, r) and self.cond(c.ufl_operands[1], env, r)
        if isinstance(c, U.OrCondition):
            return self.cond(c.ufl_operands[0], env, r) or self.cond(c.ufl_operands[1], env, r)
        if isinstance(c, U.NotCondition):
            return not self.cond(c.ufl_operands[0], env, r)
        a, b = (ev(o, (), env, r, ()) for o in c.ufl_operands)
        if isinstance(c, U.EQ):
            return a == b
        if isinstance(c, U.NE):
            return a != b
        a, b = self._re(a), self._re(b)
        if abs(a - b) < 1e-9 * max(1.0, abs(a), abs(b)):
            raise Unsupported("comparison too close to a branch point")
        if isinstance(c, U.LT):
            return a < b
        if isinstance(c, U.LE):
            return a <= b
        if isinstance(c, U.GT):
            return a > b
        if isinstance(c, U.GE):
            return a >= b
        raise Unsupported(f"condition {type(c).__name__}")

    def math(self, e, env, r):
        import cmath
        import math

        args = [self.ev(o, (), env, r, ()) for o in e.ufl_operands]
        cm = any(isinstance(a, complex) for a in args) or self.complex_mode
        m = cmath if cm else math
        name = type(e).__name__
        one = {"Sqrt": "sqrt", "Exp": "exp", "Ln": "log", "Cos": "cos", "Sin": "sin", "Tan": "tan", "Cosh": "cosh", "Sinh": "sinh",
               "Tanh": "tanh", "Acos": "acos", "Asin": "asin", "Atan": "atan"}
        if name in one:
            return getattr(m, one[name])(args[0])
        if name == "Erf":
            return math.erf(self._re(args[0]))
        if name == "Atan2":
            return math.atan2(self._re(args[0]), self._re(args[1]))
        if name in ("BesselJ", "BesselY", "BesselI", "BesselK"):
            from runtime import bessel

            f = {"BesselJ": bessel.jn, "BesselY": bessel.yn, "BesselI": bessel.iv, "BesselK": bessel.kv}[name]
            return f(int(self._re(args[0])), self._re(args[1]))
        raise Unsupported(f"math function {name}")

    def terminal(self, e, comp, r, ders):
        if isinstance(e, U.Constant):
            if ders:
                return 0.0
            v = self.constants[e]
            for c in comp:
                v = v[c]
            return v
        s = self.side(r)
        if isinstance(e, U.Coefficient | U.Argument):
            f = s.functions.get(e)
            if f is None:
                raise Unsupported(f"no function for {e!r}")
            v = f(self.x, ders)
            for c in comp:
                v = v[c]
            return v
        if isinstance(e, U.SpatialCoordinate):
            if len(ders) == 1:
                return 1.0 if ders[0] == comp[0] else 0.0
            return 0.0 if ders else float(self.x[comp[0]])
        if isinstance(e, U.GeometricQuantity) and ders:
            return 0.0  # affine cells: every other supported quantity is piecewise constant
        if isinstance(e, U.FacetNormal):
            return float(s.normal_sign * self.sides[None if None in self.sides else "+"].cell.facet_normal(self.sides[None if None in self.sides else "+"].facet)[comp[0]])
        if isinstance(e, U.CellVolume):
            return s.cell.volume()
        if isinstance(e, U.Circumradius):
            return s.cell.circumradius()
        if isinstance(e, U.FacetArea):
            return s.cell.facet_measure(s.facet)
        raise Unsupported(f"terminal {type(e).__name__}")
