"""Independent numeric reference for element tensors and expression values (bounded kernel-level contract).

The original UFL integrand / expression (derivative expansion, algebra lowering and restriction propagation only - no
pull-backs, no integral scaling, no geometry lowering, no FFCx code) is evaluated by the pointwise `Evaluator` below at
reference points of explicit physical cells; arguments and coefficients are functions built directly from basix
tabulations (identity / contravariant / covariant Piola maps; blocked incl. symmetric, mixed, enriched elements).
Geometry is explicit: x(X), J(X), K(X) from the coordinate element and the node positions (affine or not; simplices,
quadrilaterals, hexahedra), facet normals K^T n_ref, facet scale |J t| / |J t1 x J t2|.  CellVolume, Circumradius,
FacetArea only on affine cells; second derivatives and derivatives of Piola-mapped functions only on affine cells.
Anything else raises Unsupported (the kernel is skipped and counted)."""
from __future__ import annotations

import itertools

import basix
import basix.ufl
import numpy as np
import ufl
import ufl.algorithms
import ufl.classes as U


class Unsupported(Exception):
    pass


# ------------------------------------------------------------------------------------------------ geometry
REFVOL = {"interval": 1.0, "triangle": 0.5, "tetrahedron": 1 / 6, "quadrilateral": 1.0, "hexahedron": 1.0, "prism": 0.5, "pyramid": 1 / 3}


class Cell:
    """A physical cell: the coordinate element (basix.ufl blocked Lagrange element) and its node positions."""

    def __init__(self, cel, nodes):
        self.cel = cel
        self.sub = cel._sub_element if hasattr(cel, "_sub_element") else cel
        self.cellname = cel.cell_type.name
        self.ct = cel.cell_type
        self.v = np.asarray(nodes, dtype=float)  # [node][gdim]
        self.tdim = len(basix.topology(self.ct)) - 1
        self.gdim = self.v.shape[1]
        self.manifold = self.gdim != self.tdim
        self.simplex = self.cellname in ("interval", "triangle", "tetrahedron")
        self.affine = self.simplex and self.sub.embedded_superdegree == 1
        self.refgeom = np.array(basix.geometry(self.ct), dtype=float)
        self.topo = basix.topology(self.ct)
        self._g = {}

    def geom(self, X):
        """(x, J, detJ, K) at the reference point X."""
        key = tuple(np.round(np.asarray(X, dtype=float), 14))
        g = self._g.get(key)
        if g is None:
            t = self.sub._element.tabulate(1, np.asarray([X], dtype=float))  # [1 + tdim][1][node][1]
            x = t[0][0, :, 0] @ self.v
            J = np.array([t[1 + d][0, :, 0] @ self.v for d in range(self.tdim)]).T  # gdim x tdim
            if not self.manifold:
                detJ = float(np.linalg.det(J))
                K = np.linalg.inv(J)
            else:  # immersed manifold: pseudo-determinant and pseudo-inverse (tangential derivatives)
                G = J.T @ J
                detJ = float(np.sqrt(np.linalg.det(G)))
                K = np.linalg.inv(G) @ J.T
            g = self._g[key] = (x, J, detJ, K)
        return g

    def push(self, X):
        return self.geom(X)[0]

    def _need_affine(self, what):
        if not self.affine:
            raise Unsupported(f"{what} on a non-affine cell")

    def volume(self):
        self._need_affine("CellVolume")
        return abs(self.geom(self.refgeom[0])[2]) * REFVOL[self.cellname]

    def vertices(self):
        return self.v[: len(self.topo[0])]

    def facet_vertices(self, f):
        return list(self.topo[self.tdim - 1][f])

    def ref_facet_frame(self, f):
        """Reference facet f as origin + tangents: the facet point map is X = p0 + sum_i s_i t_i."""
        p = self.refgeom[self.facet_vertices(f)]
        return p[0], [p[i] - p[0] for i in range(1, self.tdim)]

    def ref_facet_normal(self, f):
        p0, ts = self.ref_facet_frame(f)
        if self.tdim == 1:
            n = np.array([1.0])
        elif self.tdim == 2:
            n = np.array([ts[0][1], -ts[0][0]])
        else:
            n = np.cross(ts[0], ts[1])
        if np.dot(n, p0 - self.refgeom.mean(axis=0)) < 0:
            n = -n
        return n

    def facet_normal(self, f, X):
        if self.manifold:
            raise Unsupported("FacetNormal on a manifold")
        _, _, _, K = self.geom(X)
        n = K.T @ self.ref_facet_normal(f)
        return n / np.linalg.norm(n)

    def facet_scale(self, f, X):
        """Physical facet measure per unit of the reference facet parametrisation at X."""
        _, J, _, _ = self.geom(X)
        _, ts = self.ref_facet_frame(f)
        if self.tdim == 1:
            return 1.0
        if self.tdim == 2:
            return float(np.linalg.norm(J @ ts[0]))
        if self.manifold:
            raise Unsupported("facets of a 3D manifold cell")
        return float(np.linalg.norm(np.cross(J @ ts[0], J @ ts[1])))

    def facet_points(self, f, Xf):
        p0, ts = self.ref_facet_frame(f)
        if self.tdim == 1:
            return np.array([p0])
        T = np.array(ts).T
        return np.array([p0 + T @ np.asarray(X) for X in Xf])

    def ridge_points(self, e, Xr):
        """Reference ridge (edge of a 3D cell) e: X = p0 + s (p1 - p0)."""
        p = self.refgeom[list(self.topo[self.tdim - 2][e])]
        return np.array([p[0] + (p[1] - p[0]) * float(X[0]) for X in Xr])

    def ridge_scale(self, e, X):
        p = self.refgeom[list(self.topo[self.tdim - 2][e])]
        return float(np.linalg.norm(self.geom(X)[1] @ (p[1] - p[0])))

    def facet_measure(self, f):
        self._need_affine("FacetArea")
        p = self.v[self.facet_vertices(f)]
        if self.tdim == 1:
            return 1.0
        if self.tdim == 2:
            return float(np.linalg.norm(p[1] - p[0]))
        return 0.5 * float(np.linalg.norm(np.cross(p[1] - p[0], p[2] - p[0])))

    def circumradius(self):
        self._need_affine("Circumradius")
        v = self.vertices()
        if self.tdim == 1:
            return 0.5 * float(np.linalg.norm(v[1] - v[0]))
        if self.tdim == 2:
            a, b, c = (np.linalg.norm(v[i] - v[j]) for i, j in ((1, 2), (0, 2), (0, 1)))
            return a * b * c / (4 * self.volume())
        if self.manifold:
            raise Unsupported("Circumradius of a 3D manifold cell")
        A = 2 * (v[1:] - v[0])
        rhs = np.sum(v[1:] ** 2 - v[0] ** 2, axis=1)
        center = np.linalg.solve(A, rhs)
        return float(np.linalg.norm(center - v[0]))


# ------------------------------------------------------------------------------------------------ elements
def ref_tab(el, nd, X):
    """([derivative index][dof][reference value component], [(map kind, value range)]) of a basix.ufl element at X."""
    if isinstance(el, basix.ufl._BlockedElement):
        sub, _ = ref_tab(el._sub_element, nd, X)  # [d][n][1]
        bs = el.block_size
        if (not el._has_symmetry and int(np.prod(el.reference_value_shape)) != bs) or sub.shape[2] != 1:
            raise Unsupported("blocked element of a non-scalar element")
        out = np.zeros((sub.shape[0], sub.shape[1] * bs, bs))
        for n in range(sub.shape[1]):
            for c in range(bs):
                out[:, n * bs + c, c] = sub[:, n, 0]
        return out, [("symmetric" if el._has_symmetry else "identity", 0, bs)]
    if isinstance(el, basix.ufl._MixedElement):
        parts = [ref_tab(e, nd, X) for e in el.sub_elements]
        ndofs = sum(p[0].shape[1] for p in parts)
        vs = sum(p[0].shape[2] for p in parts)
        out = np.zeros((parts[0][0].shape[0], ndofs, vs))
        maps = []
        d0 = v0 = 0
        for t, m in parts:
            out[:, d0 : d0 + t.shape[1], v0 : v0 + t.shape[2]] = t
            if any(kind == "symmetric" for kind, _, _ in m):
                raise Unsupported("symmetric element inside a mixed element")
            maps += [(kind, v0 + a, v0 + b) for kind, a, b in m]
            d0 += t.shape[1]
            v0 += t.shape[2]
        return out, maps
    if isinstance(el, basix.ufl._QuadratureElement):
        # defined at its own points only: dof k is the value at point k
        P = np.asarray(el._points, dtype=float)
        hit = np.where(np.abs(P - np.asarray(X, dtype=float)).max(axis=1) < 1e-12)[0]
        if len(hit) != 1 or nd != 0:
            raise Unsupported("quadrature element evaluated away from its points (or differentiated)")
        out = np.zeros((1, P.shape[0], 1))
        out[0, hit[0], 0] = 1.0
        return out, [("identity", 0, 1)]
    if isinstance(el, basix.ufl._RealElement):
        vs = int(np.prod(el.reference_value_shape)) if el.reference_value_shape else 1
        tdim = len(X)
        nder = int(round(np.prod([(nd + i + 1) / (i + 1) for i in range(tdim)])))  # number of derivatives of order <= nd
        out = np.zeros((nder, vs, vs))
        out[0] = np.eye(vs)
        return out, [("identity", 0, vs)]
    if isinstance(el, basix.ufl._BasixElement):
        t = el._element.tabulate(nd, np.asarray([X], dtype=float))  # [d][1][dofs][vs]
        kind = {basix.MapType.identity: "identity", basix.MapType.contravariantPiola: "contravariant",
                basix.MapType.covariantPiola: "covariant", basix.MapType.doubleCovariantPiola: "double_covariant",
                basix.MapType.doubleContravariantPiola: "double_contravariant"}.get(el.map_type)
        if kind is None:
            raise Unsupported(f"map type {el.map_type}")
        return t[:, 0], [(kind, 0, t.shape[3])]
    raise Unsupported(f"element class {type(el).__name__}")


def _deriv_index(tdim, counts):
    return basix.index(*counts)


class FEFunction:
    """X -> value (nested tuple) of sum_d w_d phi_d and its physical derivatives at the reference point X of a cell."""

    def __init__(self, el, cell: Cell, dofs):
        self.el, self.cell, self.w = el, cell, np.asarray(dofs)
        self.shape = tuple(el.reference_value_shape)
        self._cache = {}

    def _tab(self, X, nd):
        key = (tuple(np.round(X, 14)), nd)
        if key not in self._cache:
            self._cache[key] = ref_tab(self.el, nd, X)
        return self._cache[key]

    def __call__(self, X, derivatives=()):
        cell = self.cell
        nd = len(derivatives)
        tab, maps = self._tab(X, nd)
        _, J, detJ, K = cell.geom(X)
        tdim = cell.tdim
        piola = any(kind not in ("identity", "symmetric") for kind, _, _ in maps)
        if not cell.affine and (nd >= 2 or (nd >= 1 and piola)):
            raise Unsupported("higher derivatives / derivatives of Piola-mapped functions on non-affine geometry")
        # physical derivative d/dx_{k1}..d/dx_{km} = sum_l K[l1,k1]..K[lm,km] d/dX_{l1}..d/dX_{lm}  (K constant, or m <= 1)
        val = np.zeros(tab.shape[2], dtype=self.w.dtype if np.iscomplexobj(self.w) else float)
        for ls in itertools.product(range(tdim), repeat=nd):
            coef = 1.0
            for l, k in zip(ls, derivatives):
                coef *= K[l, k]
            if coef == 0.0:
                continue
            counts = [0] * tdim
            for l in ls:
                counts[l] += 1
            t = tab[_deriv_index(tdim, counts)]  # [dof][vs]
            val = val + coef * (self.w @ t)
        out = np.array(val)
        if cell.manifold and any(kind != "identity" for kind, _, _ in maps):
            raise Unsupported("mapped (Piola / symmetric) elements on a manifold")
        for kind, a, b in maps:
            if kind == "contravariant":
                out[a:b] = (J @ val[a:b]) / detJ
            elif kind == "covariant":
                out[a:b] = K.T @ val[a:b]
            elif kind == "double_covariant":
                S = val[a:b].reshape(tdim, tdim)
                out[a:b] = (K.T @ S @ K).reshape(-1)
            elif kind == "double_contravariant":
                S = val[a:b].reshape(tdim, tdim)
                out[a:b] = (J @ S @ J.T / detJ**2).reshape(-1)
        if maps and maps[0][0] == "symmetric":
            n = self.el._block_shape[0]
            pos = {}
            k = 0
            for i in range(n):
                for j in range(i + 1):
                    pos[(i, j)] = pos[(j, i)] = k
                    k += 1
            return tuple(tuple(out[pos[(i, j)]] for j in range(n)) for i in range(n))
        if self.shape == ():
            return out[0]
        return _nest(out, self.shape)


def _nest(flat, shape):
    if len(shape) == 1:
        return tuple(flat)
    step = int(np.prod(shape[1:]))
    return tuple(_nest(flat[i * step : (i + 1) * step], shape[1:]) for i in range(shape[0]))


# ------------------------------------------------------------------------------------------------ UFL evaluation
class Side:
    """Everything that depends on which cell a restricted terminal lives on."""

    def __init__(self, cell: Cell, facet, functions):
        self.cell, self.facet, self.functions = cell, facet, functions


class Evaluator:
    """Pointwise value of a UFL expression (derivatives expanded, algebra lowered; no pull-backs, no geometry lowering)
    at a physical point x.  sides: {None or '+': Side, '-': Side}; constants: {Constant: nested tuple or scalar}."""

    def __init__(self, sides, constants, complex_mode):
        self.sides, self.constants, self.complex_mode = sides, constants, complex_mode

    def __call__(self, e, X, comp=()):
        """X: {side: reference point of that side's cell} with the same keys as `sides`."""
        self.X = X
        self.memo = {}
        return self.ev(e, comp, {}, None, ())

    def key(self, r):
        if r in self.sides:
            return r
        if r is None and "+" in self.sides:
            return "+"
        raise Unsupported(f"restriction {r!r}")

    def ev(self, e, comp, env, r, ders):
        if isinstance(e, U.Terminal):
            return self._ev(e, comp, env, r, ders)
        key = (id(e), comp, tuple(env[i] for i in e.ufl_free_indices), r, ders)
        try:
            return self.memo[key]
        except KeyError:
            v = self.memo[key] = self._ev(e, comp, env, r, ders)
            return v

    def side(self, r):
        return self.sides[self.key(r)]

    # one handler per UFL class (looked up through the MRO once per concrete class)
    def _ev(self, e, comp, env, r, ders):
        t = type(e)
        h = self._dispatch.get(t)
        if h is None:
            for klass in t.__mro__:
                h = self._handlers.get(klass)
                if h is not None:
                    break
            else:
                raise Unsupported(f"UFL node {t.__name__}")
            self._dispatch[t] = h
        if ders and h not in self._derivative_ok:
            raise Unsupported(f"derivative of {t.__name__} after expand_derivatives")
        return h(self, e, comp, env, r, ders)

    def h_zero(self, e, comp, env, r, ders):
        return 0.0

    def h_complex(self, e, comp, env, r, ders):
        return 0.0 if ders else complex(e)

    def h_scalar(self, e, comp, env, r, ders):
        return 0.0 if ders else float(e)

    def h_identity(self, e, comp, env, r, ders):
        return 0.0 if ders else (1.0 if comp[0] == comp[1] else 0.0)

    def h_restricted(self, e, comp, env, r, ders):
        return self.ev(e.ufl_operands[0], comp, env, e.side(), ders)

    def h_variable(self, e, comp, env, r, ders):
        return self.ev(e.ufl_operands[0], comp, env, r, ders)

    def h_indexed(self, e, comp, env, r, ders):
        A, mi = e.ufl_operands
        if comp:
            raise Unsupported("component of Indexed")
        c = tuple(int(i) if isinstance(i, U.FixedIndex) else env[i.count()] for i in mi)
        return self.ev(A, c, env, r, ders)

    def h_component_tensor(self, e, comp, env, r, ders):
        A, mi = e.ufl_operands
        env2 = dict(env)
        for i, c in zip(mi, comp):
            env2[i.count()] = c
        return self.ev(A, (), env2, r, ders)

    def h_index_sum(self, e, comp, env, r, ders):
        A, mi = e.ufl_operands
        (i,) = mi
        tot = 0.0
        for k in range(e.dimension()):
            env2 = dict(env)
            env2[i.count()] = k
            tot = tot + self.ev(A, comp, env2, r, ders)
        return tot

    def h_list_tensor(self, e, comp, env, r, ders):
        return self.ev(e.ufl_operands[comp[0]], comp[1:], env, r, ders)

    def h_grad(self, e, comp, env, r, ders):
        return self.ev(e.ufl_operands[0], comp[:-1], env, r, ders + (comp[-1],))

    def h_sum(self, e, comp, env, r, ders):
        return self.ev(e.ufl_operands[0], comp, env, r, ders) + self.ev(e.ufl_operands[1], comp, env, r, ders)

    def h_product(self, e, comp, env, r, ders):
        return self.ev(e.ufl_operands[0], (), env, r, ()) * self.ev(e.ufl_operands[1], (), env, r, ())

    def h_division(self, e, comp, env, r, ders):
        return self.ev(e.ufl_operands[0], (), env, r, ()) / self.ev(e.ufl_operands[1], (), env, r, ())

    def h_power(self, e, comp, env, r, ders):
        a, b = (self.ev(o, (), env, r, ()) for o in e.ufl_operands)
        return a**b

    def h_abs(self, e, comp, env, r, ders):
        return abs(self.ev(e.ufl_operands[0], comp, env, r, ()))

    def h_conj(self, e, comp, env, r, ders):
        v = self.ev(e.ufl_operands[0], comp, env, r, ())
        return v.conjugate() if isinstance(v, complex) else v

    def h_real(self, e, comp, env, r, ders):
        return complex(self.ev(e.ufl_operands[0], comp, env, r, ())).real

    def h_imag(self, e, comp, env, r, ders):
        return complex(self.ev(e.ufl_operands[0], comp, env, r, ())).imag

    def h_conditional(self, e, comp, env, r, ders):
        c, t, f = e.ufl_operands
        return self.ev(t, comp, env, r, ()) if self.cond(c, env, r) else self.ev(f, comp, env, r, ())

    def h_min(self, e, comp, env, r, ders):
        return min(self._re(self.ev(o, (), env, r, ())) for o in e.ufl_operands)

    def h_max(self, e, comp, env, r, ders):
        return max(self._re(self.ev(o, (), env, r, ())) for o in e.ufl_operands)

    def h_math(self, e, comp, env, r, ders):
        return self.math(e, env, r)

    def h_terminal(self, e, comp, env, r, ders):
        return self.terminal(e, comp, r, ders)

    _handlers = {
        U.Zero: h_zero, U.ComplexValue: h_complex, U.ScalarValue: h_scalar, U.Identity: h_identity, U.Restricted: h_restricted,
        U.Variable: h_variable, U.Indexed: h_indexed, U.ComponentTensor: h_component_tensor, U.IndexSum: h_index_sum,
        U.ListTensor: h_list_tensor, U.Grad: h_grad, U.Sum: h_sum, U.Product: h_product, U.Division: h_division, U.Power: h_power,
        U.Abs: h_abs, U.Conj: h_conj, U.Real: h_real, U.Imag: h_imag, U.Conditional: h_conditional, U.MinValue: h_min,
        U.MaxValue: h_max, U.MathFunction: h_math, U.Atan2: h_math, U.BesselFunction: h_math, U.Terminal: h_terminal,
    }
    _derivative_ok = {h_zero, h_complex, h_scalar, h_identity, h_restricted, h_variable, h_indexed, h_component_tensor, h_index_sum,
                      h_list_tensor, h_grad, h_sum, h_terminal}
    _dispatch: dict = {}

    @staticmethod
    def _re(v):
        if isinstance(v, complex):
            if v.imag != 0:
                raise Unsupported("ordering of complex values")
            return v.real
        return v

    def cond(self, c, env, r):
        ev = self.ev
        if isinstance(c, U.AndCondition):
            return self.cond(c.ufl_operands[0], env, r) and self.cond(c.ufl_operands[1], env, r)
        if isinstance(c, U.OrCondition):
            return self.cond(c.ufl_operands[0], env, r) or self.cond(c.ufl_operands[1], env, r)
        if isinstance(c, U.NotCondition):
            return not self.cond(c.ufl_operands[0], env, r)
        a, b = (ev(o, (), env, r, ()) for o in c.ufl_operands)
        if isinstance(c, U.EQ):
            return a == b
        if isinstance(c, U.NE):
            return a != b
        a, b = self._re(a), self._re(b)
        if abs(a - b) < 1e-9 * max(1.0, abs(a), abs(b)):
            raise Unsupported("comparison too close to a branch point")
        if isinstance(c, U.LT):
            return a < b
        if isinstance(c, U.LE):
            return a <= b
        if isinstance(c, U.GT):
            return a > b
        if isinstance(c, U.GE):
            return a >= b
        raise Unsupported(f"condition {type(c).__name__}")

    def math(self, e, env, r):
        import cmath
        import math

        args = [self.ev(o, (), env, r, ()) for o in e.ufl_operands]
        cm = any(isinstance(a, complex) for a in args) or self.complex_mode
        m = cmath if cm else math
        name = type(e).__name__
        one = {"Sqrt": "sqrt", "Exp": "exp", "Ln": "log", "Cos": "cos", "Sin": "sin", "Tan": "tan", "Cosh": "cosh", "Sinh": "sinh",
               "Tanh": "tanh", "Acos": "acos", "Asin": "asin", "Atan": "atan"}
        if name in one:
            return getattr(m, one[name])(args[0])
        if name == "Erf":
            return math.erf(self._re(args[0]))
        if name == "Atan2":
            return math.atan2(self._re(args[0]), self._re(args[1]))
        if name in ("BesselJ", "BesselY", "BesselI", "BesselK"):
            from runtime import bessel

            f = {"BesselJ": bessel.jn, "BesselY": bessel.yn, "BesselI": bessel.iv, "BesselK": bessel.kv}[name]
            return f(int(self._re(args[0])), self._re(args[1]))
        raise Unsupported(f"math function {name}")

    def terminal(self, e, comp, r, ders):
        if isinstance(e, U.Constant):
            if ders:
                return 0.0
            v = self.constants[e]
            for c in comp:
                v = v[c]
            return v
        s = self.side(r)
        X = self.X[self.key(r)]
        if isinstance(e, U.Coefficient | U.Argument):
            f = s.functions.get(e)
            if f is None:
                raise Unsupported(f"no function for {e!r}")
            v = f(X, ders)
            for c in comp:
                v = v[c]
            return v
        if isinstance(e, U.SpatialCoordinate):
            if len(ders) == 1:
                return 1.0 if ders[0] == comp[0] else 0.0
            return 0.0 if ders else float(s.cell.push(X)[comp[0]])
        if isinstance(e, U.GeometricQuantity) and ders:
            s.cell._need_affine("derivative of a geometric quantity")
            return 0.0  # affine cells: every other supported quantity is piecewise constant
        if isinstance(e, U.FacetNormal):
            return float(s.cell.facet_normal(s.facet, X)[comp[0]])
        if isinstance(e, U.CellVolume):
            return s.cell.volume()
        if isinstance(e, U.Circumradius):
            return s.cell.circumradius()
        if isinstance(e, U.FacetArea):
            return s.cell.facet_measure(s.facet)
        # vertex / edge based quantities (degree-1 geometry): entity numbering and orientation as in basix.topology
        if isinstance(e, U.CellVertices | U.CellEdgeVectors | U.FacetEdgeVectors | U.CellDiameter | U.MinCellEdgeLength | U.MaxCellEdgeLength
                      | U.MinFacetEdgeLength | U.MaxFacetEdgeLength):
            cell = s.cell
            if cell.sub.embedded_superdegree != 1:
                raise Unsupported(f"{type(e).__name__} on higher-order geometry")
            V = cell.vertices()
            edges = [tuple(x) for x in cell.topo[1]]
            if isinstance(e, U.CellVertices):
                return float(V[comp[0]][comp[1]])
            if isinstance(e, U.CellEdgeVectors):
                a, b = edges[comp[0]]
                return float(V[a][comp[1]] - V[b][comp[1]])  # orientation as UFL's geometry lowering defines it (v0 - v1)
            if isinstance(e, U.CellDiameter):
                return float(max(np.linalg.norm(V[i] - V[j]) for i in range(len(V)) for j in range(i)))
            if isinstance(e, U.MinCellEdgeLength | U.MaxCellEdgeLength):
                ls = [np.linalg.norm(V[b] - V[a]) for a, b in edges]
                return float(min(ls) if isinstance(e, U.MinCellEdgeLength) else max(ls))
            if cell.tdim != 3 or s.facet is None:
                raise Unsupported(f"{type(e).__name__} outside a facet integral of a 3D cell")
            fe = [edges[k] for k in basix.cell.sub_entity_connectivity(cell.ct)[2][s.facet][1]]
            if isinstance(e, U.FacetEdgeVectors):
                a, b = fe[comp[0]]
                return float(V[a][comp[1]] - V[b][comp[1]])
            ls = [np.linalg.norm(V[b] - V[a]) for a, b in fe]
            return float(min(ls) if isinstance(e, U.MinFacetEdgeLength) else max(ls))
        raise Unsupported(f"terminal {type(e).__name__}")
