"""C12: generate the module for a corpus file in fresh subprocesses with different hash seeds and histories."""
from __future__ import annotations

import hashlib
import json
import os
import subprocess
import sys

HERE = os.path.dirname(os.path.dirname(os.path.abspath(__file__)))

CHILD = r'''
import sys, json, hashlib
sys.path.insert(0, %(here)r)
import ufl, ufl.algorithms, ufl.algorithms.check_arities, basix.ufl
from kernelvc import corpus as C
from ffcx.compiler import compile_ufl_objects
from ffcx.options import get_options
rel, opts, history, lang = json.loads(sys.argv[1])
def compile_one(rel, opts):
    options = get_options(dict(opts, language=lang))
    ufd = ufl.algorithms.load_ufl_file(C.resolve(rel))
    code, _ = compile_ufl_objects(ufd.forms + ufd.expressions + ufd.elements, options=options, object_names=ufd.object_names, namespace="v")
    return code
if history >= 1:
    # unrelated UFL objects created first (object counters advance)
    for _ in range(3):
        m = ufl.Mesh(basix.ufl.element("Lagrange", "tetrahedron", 1, shape=(3,)))
        V = ufl.FunctionSpace(m, basix.ufl.element("Lagrange", "tetrahedron", 2))
        _f = ufl.Coefficient(V) * ufl.TestFunction(V) * ufl.dx
if history >= 2:
    # other modules compiled earlier in the same process, then the same module once before
    compile_one("corpus/history_warmup.py", {})
    compile_one("corpus/tp_sumfact.py", {"sum_factorization": True})
    compile_one("corpus/expressions.py", {})
    compile_one(rel, opts)
if history >= 3:
    # the SAME UFL objects compiled before with another scalar type and backend (state left on the user's objects)
    ufd = ufl.algorithms.load_ufl_file(C.resolve(rel))
    objs = ufd.forms + ufd.expressions + ufd.elements
    st = str(get_options(dict(opts))["scalar_type"])
    other = {"float64": "complex128", "float32": "complex64", "complex128": "float64", "complex64": "float32"}[st]
    def compile_objs(o):
        return compile_ufl_objects(objs, options=get_options(dict(o, language=lang)), object_names=ufd.object_names, namespace="v")[0]
    try:
        compile_objs(dict(opts, scalar_type=other))
    except (KeyboardInterrupt, SystemExit):
        raise
    except BaseException:
        pass  # rejected in the other scalar type (UFL's ArityMismatch / ComplexComparisonError are BaseExceptions): fine
    code = compile_objs(opts)
else:
    code = compile_one(rel, opts)
print(json.dumps([hashlib.sha1(c.encode()).hexdigest() for c in code] + ["\n".join(code)]))
'''


def generate(rel, opts, seed, history, lang="C", timeout=600):
    env = dict(os.environ, PYTHONHASHSEED=str(seed))
    r = subprocess.run([sys.executable, "-c", CHILD % dict(here=HERE), json.dumps([rel, opts, history, lang])],
                       capture_output=True, text=True, env=env, timeout=timeout)
    if r.returncode != 0:
        raise RuntimeError(f"generation failed: {r.stderr[-800:]}")
    out = json.loads(r.stdout.strip().splitlines()[-1])
    return out[:-1], out[-1]


def first_diff(a, b):
    la, lb = a.splitlines(), b.splitlines()
    for i, (x, y) in enumerate(zip(la, lb)):
        if x != y:
            return i + 1, x[:200], y[:200]
    return min(len(la), len(lb)) + 1, "<eof>", "<eof>"
