"""E2: verification conditions over one generated LNodes kernel (all inputs, all iterations).

The program is what IntegralGenerator / ExpressionGenerator returned on this run.  Scoping follows the
C formatter (which E1 proves emits it): a Section's declarations live in the enclosing scope, its
statements and every ForRange body open a new scope.
"""

from __future__ import annotations

import time

import numpy as np
import z3

import ffcx.codegeneration.lnodes as L

KERNEL_ARGS = ("A", "w", "c", "coordinate_dofs", "entity_local_index", "quadrature_permutation")


import re

_RULE = re.compile(r"(?:_Q|^weights_)([0-9a-f]{3,})(?:_|$)")


def rule_id_of(name):
    m = _RULE.search(name)
    return m.group(1) if m else None


class Extents:
    """Independent (UFL / ufcx.h derived) extents of the kernel arguments."""

    def __init__(self, A, w, c, coords, n_entity_idx, n_perm_idx, n_entities, n_perms, enabled_ranges=None,
                 all_coeff_ranges=None):
        self.ext = dict(A=A, w=w, c=c, coordinate_dofs=coords, entity_local_index=n_entity_idx,
                        quadrature_permutation=n_perm_idx)
        self.n_entities = n_entities  # valid values of entity_local_index[r]: [0, n_entities)
        self.n_perms = n_perms  # valid values of quadrature_permutation[r]: [0, n_perms)
        self.enabled_ranges = enabled_ranges  # list of (lo, hi) of w that may influence A
        self.all_coeff_ranges = all_coeff_ranges


class Scope:
    def __init__(self, parent=None):
        self.parent = parent
        self.decls = {}  # name -> dict(kind, sizes, const, values, dtype)

    def lookup(self, name):
        s = self
        while s is not None:
            if name in s.decls:
                return s.decls[name]
            s = s.parent
        return None


class KernelChecker:
    def __init__(self, name, program, extents: Extents, kind="integral", timeout_ms=10000):
        self.name = name
        self.program = program
        self.ext = extents
        self.kind = kind
        self.results = []  # (obligation name, status, backend, time, detail)
        self.solver = z3.Solver()
        self.solver.set("timeout", timeout_ms)
        self.hyps = []
        self.fresh = 0
        self.reads = {k: [] for k in KERNEL_ARGS}  # name -> list of (z3 index, hyps snapshot)
        self.w_reads_static = []
        self._wdeps_seen = set()
        self.all_decl_names = set()
        self.defs = {}  # temp name -> set of w-index terms it depends on (for def-use)
        self.stats = dict(accesses=0, decls=0, loops=0, assigns=0)

    # ------------------------------------------------------------------ helpers
    def ob(self, what, goal, detail=None):
        t0 = time.time()
        if isinstance(goal, bool):
            self.results.append((what, "proved" if goal else "refuted", "eval", 0.0, detail))
            return
        g = z3.simplify(goal)
        if z3.is_true(g):
            self.results.append((what, "proved", "eval", time.time() - t0, detail))
            return
        self.solver.push()
        try:
            self.solver.add(z3.Not(g))
            r = self.solver.check()
            if r == z3.unsat:
                st, d = "proved", detail
            elif r == z3.sat:
                m = self.solver.model()
                d = dict(detail or {}, model=str(m)[:800])
                st = "refuted"
            else:
                st, d = "unknown", dict(detail or {}, reason=self.solver.reason_unknown())
        finally:
            self.solver.pop()
        self.results.append((what, st, "z3", time.time() - t0, d))

    def push_hyp(self, h):
        self.solver.push()
        self.solver.add(h)

    def pop_hyp(self):
        self.solver.pop()

    def newint(self, tag):
        self.fresh += 1
        return z3.Int(f"{tag}!{self.fresh}")

    # ------------------------------------------------------------------ index terms
    def term(self, e, scope):
        """z3 Int term of an integer-valued LNodes expression (None if not integer-valued/unknown)."""
        if isinstance(e, int | np.integer):
            return z3.IntVal(int(e))
        if isinstance(e, L.LiteralInt):
            return z3.IntVal(int(e.value))
        if isinstance(e, L.MultiIndex):
            return self.term(e.global_index, scope)
        if isinstance(e, L.Symbol):
            d = scope.lookup(e.name)
            if d is None:
                self.ob(f"in-scope: symbol {e.name} is declared before use", False, dict(symbol=e.name))
                return self.newint("undeclared")
            if d["kind"] == "loop":
                return d["var"]
            if d["kind"] == "var" and d.get("term") is not None:
                return d["term"]
            return self.newint(e.name)
        if isinstance(e, L.Neg):
            t = self.term(e.arg, scope)
            return None if t is None else -t
        if isinstance(e, L.Add | L.Sub | L.Mul):
            a, b = self.term(e.lhs, scope), self.term(e.rhs, scope)
            if a is None or b is None:
                return None
            return a + b if isinstance(e, L.Add) else (a - b if isinstance(e, L.Sub) else a * b)
        if isinstance(e, L.Sum | L.Product):
            ts = [self.term(a, scope) for a in e.args]
            if any(t is None for t in ts):
                return None
            acc = ts[0]
            for t in ts[1:]:
                acc = acc + t if isinstance(e, L.Sum) else acc * t
            return acc
        if isinstance(e, L.ArrayAccess):
            self.access(e, scope, write=False)
            name = e.array.name
            v = self.newint(name)
            if name == "entity_local_index":
                self.solver.add(z3.And(v >= 0, v < self.ext.n_entities))
            elif name == "quadrature_permutation":
                self.solver.add(z3.And(v >= 0, v < max(self.ext.n_perms, 1)))
            else:
                d = scope.lookup(name)
                if d is not None and d["kind"] == "array" and d["const"] and d["values"] is not None:
                    vals = np.asarray(d["values"])
                    if np.issubdtype(vals.dtype, np.integer) and vals.size:
                        self.solver.add(z3.And(v >= int(vals.min()), v <= int(vals.max())))
            return v
        if isinstance(e, L.LiteralFloat):
            return None
        return None

    # ------------------------------------------------------------------ accesses
    def access(self, e: L.ArrayAccess, scope, write):
        self.stats["accesses"] += 1
        name = e.array.name
        idx = [self.term(i, scope) for i in e.indices]
        if any(t is None for t in idx):
            self.ob(f"extent: {name}[...] index is an integer expression", False, dict(access=repr(e)))
            return
        if name in KERNEL_ARGS:
            if len(idx) != 1:
                self.ob(f"extent: kernel argument {name} is accessed with one flat index", False, dict(access=repr(e)))
                return
            ext = self.ext.ext[name]
            self.ob(f"extent: 0 <= {name}[{e.indices[0]!r}] < {ext}", z3.And(idx[0] >= 0, idx[0] < ext),
                    dict(access=repr(e), extent=ext))
            if name != "A":
                self.reads[name].append(idx[0])
            if name == "A" and not write:
                self.ob("purity: A is never read", False, dict(access=repr(e)))
            if name != "A" and write:
                self.ob(f"frame: kernel input {name} is never written", False, dict(access=repr(e)))
            return
        d = scope.lookup(name)
        if d is None:
            self.ob(f"in-scope: array {name} is declared before use", False, dict(access=repr(e)))
            return
        if d["kind"] != "array":
            self.ob(f"in-scope: {name} is subscripted but declared as a scalar", False, dict(access=repr(e)))
            return
        sizes = d["sizes"]
        if len(idx) != len(sizes):
            self.ob(f"extent: {name} rank {len(sizes)} accessed with {len(idx)} indices", False, dict(access=repr(e)))
            return
        goal = z3.And(*[z3.And(i >= 0, i < int(n)) for i, n in zip(idx, sizes)]) if idx else True
        self.ob(f"extent: {name}{list(sizes)} accessed at {[repr(i) for i in e.indices]}", goal,
                dict(access=repr(e), sizes=[int(s) for s in sizes]))
        if write and d["const"]:
            self.ob(f"frame: const table {name} is never written", False, dict(access=repr(e)))

    # ------------------------------------------------------------------ expressions (reads)
    def expr(self, e, scope, deps):
        """Visit an expression: check accesses, collect w-dependencies into deps."""
        if isinstance(e, L.ArrayAccess):
            self.access(e, scope, write=False)
            if e.array.name == "w":
                t = self.term(e.indices[0], scope) if len(e.indices) == 1 else None
                deps.append(("w", self.w_membership(t), repr(e)))
            else:
                d = scope.lookup(e.array.name)
                if d is not None:
                    deps.extend(d.get("deps", ()))
                    rid = rule_id_of(e.array.name)
                    if rid is not None and d.get("kind") == "array" and d.get("const"):
                        deps.append(("rule", rid, e.array.name))
            for i in e.indices:
                self.expr_index(i, scope)
            return
        if isinstance(e, L.Symbol):
            d = scope.lookup(e.name)
            if d is None:
                self.ob(f"in-scope: symbol {e.name} is declared before use", False, dict(symbol=e.name))
            else:
                deps.extend(d.get("deps", ()))
            return
        if isinstance(e, L.LiteralFloat | L.LiteralInt):
            return
        if isinstance(e, L.MultiIndex):
            return self.expr(e.global_index, scope, deps)
        if isinstance(e, L.PrefixUnaryOp):
            return self.expr(e.arg, scope, deps)
        if isinstance(e, L.AssignOp):
            self.ob("purity: no assignment inside an expression", False, dict(expr=repr(e)))
            return
        if isinstance(e, L.BinOp):
            self.expr(e.lhs, scope, deps)
            self.expr(e.rhs, scope, deps)
            return
        if isinstance(e, L.NaryOp | L.MathFunction):
            for a in e.args:
                self.expr(a, scope, deps)
            return
        if isinstance(e, L.Conditional):
            self.expr(e.condition, scope, deps)
            self.expr(e.true, scope, deps)
            self.expr(e.false, scope, deps)
            return
        self.ob(f"well-formed: unknown expression node {type(e).__name__}", False, {})

    def expr_index(self, e, scope):
        # symbols inside indices must be in scope too
        if isinstance(e, L.Symbol):
            if scope.lookup(e.name) is None:
                self.ob(f"in-scope: symbol {e.name} is declared before use", False, dict(symbol=e.name))
        elif isinstance(e, L.MultiIndex):
            self.expr_index(e.global_index, scope)
        elif isinstance(e, L.PrefixUnaryOp):
            self.expr_index(e.arg, scope)
        elif isinstance(e, L.BinOp):
            self.expr_index(e.lhs, scope)
            self.expr_index(e.rhs, scope)
        elif isinstance(e, L.NaryOp):
            for a in e.args:
                self.expr_index(a, scope)
        elif isinstance(e, L.ArrayAccess):
            for i in e.indices:
                self.expr_index(i, scope)

    # ------------------------------------------------------------------ statements
    def declared_anywhere(self, name):
        return name in self.all_decl_names

    def declare(self, scope, name, info):
        self.all_decl_names.add(name)
        if name in KERNEL_ARGS:
            self.ob(f"declared-once: {name} shadows a kernel argument", False, {})
        if name in scope.decls:
            self.ob(f"declared-once: {name} declared twice in one scope", False, dict(name=name))
        else:
            self.ob(f"declared-once: {name} is new in its scope", True)
        scope.decls[name] = info

    _RANK = {L.DataType.BOOL: 0, L.DataType.INT: 1, L.DataType.REAL: 2, L.DataType.SCALAR: 3}

    def value_type(self, e):
        """Type of the VALUE of e (real(), imag() and abs() give real values whatever their argument)."""
        if isinstance(e, L.MathFunction):
            if e.function in ("real", "imag", "abs"):
                return L.DataType.REAL
            ts = [self.value_type(a) for a in e.args]
        elif isinstance(e, L.LT | L.LE | L.GT | L.GE | L.EQ | L.NE | L.And | L.Or | L.Not):
            return L.DataType.BOOL
        elif isinstance(e, L.Conditional):
            ts = [self.value_type(e.true), self.value_type(e.false)]
        elif isinstance(e, L.NaryOp):
            ts = [self.value_type(a) for a in e.args]
        elif isinstance(e, L.BinOp):
            ts = [self.value_type(e.lhs), self.value_type(e.rhs)]
        elif isinstance(e, L.PrefixUnaryOp):
            ts = [self.value_type(e.arg)]
        else:
            return getattr(e, "dtype", None)
        ts = [t for t in ts if t in self._RANK]
        return max(ts, key=self._RANK.get) if ts else getattr(e, "dtype", None)

    def type_sound(self, target, tdtype, value):
        """C converts on assignment: storing a SCALAR (possibly complex) value in REAL storage drops the imaginary part."""
        vd = self.value_type(value)
        if vd is None or tdtype not in self._RANK or vd not in self._RANK:
            return
        ok = self._RANK[vd] <= self._RANK[tdtype] or self._RANK[tdtype] >= 2 and self._RANK[vd] <= 2
        self.results.append((f"type-sound: {target} of type {tdtype.name} is assigned a value of type {vd.name} without narrowing",
                             "proved" if ok else "refuted", "eval", 0.0, dict(access=f"{target}: {tdtype.name} <- {vd.name}")))

    def stmt(self, s, scope):
        if isinstance(s, L.StatementList):
            for x in s.statements:
                self.stmt(x, scope)
        elif isinstance(s, L.Section):
            for d in s.declarations:
                self.stmt(d, scope)
            if s.statements:
                inner = Scope(scope)
                for x in s.statements:
                    self.stmt(x, inner)
        elif isinstance(s, L.Comment):
            pass
        elif isinstance(s, L.ArrayDecl):
            self.stats["decls"] += 1
            static = bool(s.const)
            if s.values is None:
                self.ob(f"static-only-const: uninitialised array {s.symbol.name} is not const", not s.const)
            else:
                vals = np.asarray(s.values)
                sz = tuple(int(x) for x in s.sizes)
                if vals.shape != () and (len(vals.shape) != len(sz) or any(a > b for a, b in zip(vals.shape, sz))):
                    self.ob(f"well-formed: initialiser shape of {s.symbol.name} fits the declared sizes", False,
                            dict(shape=list(vals.shape), sizes=[int(x) for x in s.sizes]))
            self.declare(scope, s.symbol.name, dict(kind="array", sizes=tuple(int(x) for x in s.sizes), const=static,
                                                     values=s.values, deps=[]))
        elif isinstance(s, L.VariableDecl):
            self.stats["decls"] += 1
            deps = []
            term = None
            if s.value is not None:
                self.expr(s.value, scope, deps)
                self.type_sound(s.symbol.name, s.symbol.dtype, s.value)
                if s.symbol.dtype == L.DataType.INT:
                    term = self.term(s.value, scope)
            self.declare(scope, s.symbol.name, dict(kind="var", deps=deps, term=term))
        elif isinstance(s, L.ForRange):
            self.stats["loops"] += 1
            b, e = self.term(s.begin, scope), self.term(s.end, scope)
            if b is None or e is None or not isinstance(s.index, L.Symbol):
                self.ob("well-formed: loop bounds are integer expressions over a symbol index", False, {})
                return
            inner = Scope(scope)
            v = z3.Int(f"{s.index.name}!{self.fresh}")
            self.fresh += 1
            inner.decls[s.index.name] = dict(kind="loop", var=v, deps=[])
            if scope.lookup(s.index.name) is not None and scope.lookup(s.index.name)["kind"] == "loop":
                self.ob(f"declared-once: loop index {s.index.name} does not shadow an enclosing loop index", False, {})
            self.push_hyp(z3.And(v >= b, v < e))
            try:
                self.stmt(s.body, Scope(inner))
            finally:
                self.pop_hyp()
        elif isinstance(s, L.Statement):
            e = s.expr
            if isinstance(e, L.AssignOp):
                self.stats["assigns"] += 1
                self.assign(e, scope)
            else:
                self.ob("well-formed: expression statement is an assignment", False, dict(stmt=repr(e)))
        else:
            self.ob(f"well-formed: unknown statement {type(s).__name__}", False, {})

    def assign(self, e, scope):
        deps = []
        self.expr(e.rhs, scope, deps)
        lhs = e.lhs
        if isinstance(lhs, L.ArrayAccess | L.Symbol):
            self.type_sound(lhs.array.name if isinstance(lhs, L.ArrayAccess) else lhs.name, lhs.dtype, e.rhs)
        if isinstance(lhs, L.ArrayAccess):
            name = lhs.array.name
            self.access(lhs, scope, write=True)
            for i in lhs.indices:
                self.expr_index(i, scope)
            if name == "A":
                self.ob("accumulate: A is only updated with +=", isinstance(e, L.AssignAdd), dict(stmt=type(e).__name__))
                # read-set: w reads that flow into A must be enabled
                for kind, t, txt in deps:
                    if kind == "w":
                        self.w_dep(t, txt)
                rules = sorted({(t, txt) for kind, t, txt in deps if kind == "rule"})
                wids = sorted({t for t, n in rules if n.startswith("weights_")})
                bad = []
                if len(wids) == 1:
                    R = wids[0]
                    for t, n in rules:
                        if t != R and not n.startswith("weights_"):
                            twin = n.replace(f"_Q{t}", f"_Q{R}")
                            if twin != n and self.declared_anywhere(twin):
                                bad.append((n, twin))
                self.results.append((
                    "rule-consistency: a contribution to A under rule R reads no table of another rule for which an R-table exists",
                    "proved" if (len(wids) <= 1 and not bad) else "refuted", "eval", 0.0,
                    dict(access=f"A update under weights {wids} reads {bad}", tables=[n for _, n in rules][:8])))
                return
            d = scope.lookup(name)
            if d is not None:
                d.setdefault("deps", [])
                d["deps"] = list(d["deps"]) + deps
            return
        if isinstance(lhs, L.Symbol):
            if lhs.name in KERNEL_ARGS:
                self.ob(f"frame: kernel argument pointer {lhs.name} is never assigned", False, {})
                return
            d = scope.lookup(lhs.name)
            if d is None:
                self.ob(f"in-scope: assigned symbol {lhs.name} is declared", False, dict(symbol=lhs.name))
                return
            d["deps"] = list(d.get("deps", ())) + deps
            return
        self.ob("well-formed: assignment target is a symbol or array element", False, dict(target=repr(lhs)))

    def w_membership(self, t):
        """Decided at the read site (loop hypotheses live): is the index inside an enabled range?"""
        if self.ext.enabled_ranges is None:
            return None
        if t is None:
            return ("refuted", "index is not an integer expression")
        if not self.ext.enabled_ranges:
            return ("refuted", "no coefficient is enabled")
        goal = z3.Or(*[z3.And(t >= lo, t < hi) for lo, hi in self.ext.enabled_ranges])
        self.solver.push()
        try:
            self.solver.add(z3.Not(goal))
            r = self.solver.check()
            if r == z3.unsat:
                return ("proved", None)
            if r == z3.sat:
                return ("refuted", str(self.solver.model())[:400])
            return ("unknown", self.solver.reason_unknown())
        finally:
            self.solver.pop()

    def w_dep(self, res, txt):
        if res is None or txt in self._wdeps_seen:
            return
        self._wdeps_seen.add(txt)
        self.results.append((
            f"read-set: {txt} (flows into A) lies in an enabled coefficient's range {self.ext.enabled_ranges}",
            res[0], "z3", 0.0, dict(access=txt, model=res[1])))

    # ------------------------------------------------------------------ driver
    def run(self):
        top = Scope()
        self.stmt(self.program, top)
        return self.results
