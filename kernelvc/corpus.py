"""E2 corpus driver: UFL file -> analysis -> IR -> LNodes kernels (real generators), plus the
independent extents (from UFL form data and ufcx.h, not from FFCx's IR)."""

from __future__ import annotations

import os
import traceback

import basix
import numpy as np
import ufl
import ufl.algorithms

from kernelvc.obligations import Extents

REPO = os.environ.get("FFCX_REPO", "/repo")
HERE = os.path.dirname(os.path.dirname(os.path.abspath(__file__)))

DEMO_OPTS = {"ComplexPoisson.py": dict(scalar_type="complex128")}

# (relative path, options)
QUICK = [
    ("demo/Poisson1D.py", {}),
    ("demo/FacetIntegrals.py", {}),
    ("demo/FacetRestrictionAD.py", {}),
    ("demo/MixedCoefficient.py", {}),
    ("demo/VectorConstant.py", {}),
    ("demo/ExpressionInterpolation.py", {}),
    ("demo/Conditional.py", {}),
    ("demo/CellGeometry.py", {}),
    ("demo/MetaData.py", {}),
    ("demo/ComplexPoisson.py", dict(scalar_type="complex128")),
]


def demo_files():
    d = os.path.join(REPO, "demo")
    out = []
    for f in sorted(os.listdir(d)):
        if f.endswith(".py") and f != "test_demos.py" and not f.endswith("_numba.py"):
            out.append((f"demo/{f}", DEMO_OPTS.get(f, {})))
    return out


def corpus_files():
    d = os.path.join(HERE, "corpus")
    out = []
    if os.path.isdir(d):
        for f in sorted(os.listdir(d)):
            if f.endswith(".py"):
                opts = {}
                with open(os.path.join(d, f)) as fh:
                    for line in fh:
                        if line.startswith("# options:"):
                            opts = eval(line.split(":", 1)[1])  # noqa: S307
                            break
                variants = opts.pop("variants", None)
                if variants:
                    for v in variants:
                        out.append((f"corpus/{f}", dict(opts, **v)))
                else:
                    out.append((f"corpus/{f}", opts))
    return out


def resolve(rel):
    return os.path.join(REPO, rel) if rel.startswith("demo/") else os.path.join(HERE, rel)


N_PERMS = {"point": 1, "interval": 2, "triangle": 6, "quadrilateral": 8}


def cell_entities(cellname, dim):
    ct = getattr(basix.CellType, cellname)
    return len(basix.topology(ct)[dim])


def facet_perm_count(cellname):
    ct = getattr(basix.CellType, cellname)
    tdim = len(basix.topology(ct)) - 1
    if tdim == 0:
        return 1
    sub = basix.cell.subentity_types(ct)[tdim - 1]
    return max(N_PERMS[s.name] for s in sub)


class Kernel:
    def __init__(self, **kw):
        self.__dict__.update(kw)


def _coeff_ranges(fd, width):
    ranges = []
    off = 0
    for el in fd.coefficient_elements:
        n = width * el.dim
        ranges.append((off, off + n))
        off += n
    return ranges, off


def integral_extents(fd, itg_data, part):
    """Extents per ufcx.h, from UFL's form data only."""
    it = itg_data.integral_type
    width = 2 if it == "interior_facet" else 1
    dims = [width * e.dim for e in fd.argument_elements]
    if part == "diagonal" and len(dims) == 2:
        dims = dims[:1]
    A = int(np.prod(dims, dtype=int)) if dims else 1
    ranges, w = _coeff_ranges(fd, width)
    enabled = [r for r, en in zip(ranges, itg_data.enabled_coefficients) if en]
    c = int(sum(int(np.prod(k.ufl_shape, dtype=int)) for k in fd.original_form.constants()))
    dom = itg_data.domain
    cel = dom.ufl_coordinate_element()
    gdim = dom.geometric_dimension
    nodes = cel.dim // gdim
    coords = 3 * nodes * width
    cellname = dom.ufl_cell().cellname
    tdim = dom.ufl_cell().topological_dimension
    if it == "cell":
        n_idx, n_ent, n_pidx, n_perm = 0, 1, 0, 1
    elif it == "exterior_facet":
        n_idx, n_ent, n_pidx, n_perm = 1, cell_entities(cellname, tdim - 1), 1, facet_perm_count(cellname)
    elif it == "interior_facet":
        n_idx, n_ent, n_pidx, n_perm = 2, cell_entities(cellname, tdim - 1), 2, facet_perm_count(cellname)
    elif it == "vertex":
        n_idx, n_ent, n_pidx, n_perm = 1, cell_entities(cellname, 0), 1, 1
    elif it == "ridge":
        n_idx, n_ent, n_pidx, n_perm = 1, cell_entities(cellname, tdim - 2), 1, 2
    else:
        raise ValueError(it)
    return Extents(A, w, c, coords, n_idx, n_pidx, n_ent, n_perm, enabled_ranges=enabled, all_coeff_ranges=ranges)


def expression_extents(expr_ir_input, original, points, analysis):
    """Extents for an expression kernel, from the UFL expression and ufcx.h."""
    import ufl.algorithms.analysis as ua

    processed = expr_ir_input
    args = ua.extract_arguments(original)
    arg_dims = [a.ufl_function_space().ufl_element().dim for a in sorted(args, key=lambda a: a.number())]
    ncomp = int(np.prod(original.ufl_shape, dtype=int)) if original.ufl_shape else 1
    npts = points.shape[0]
    A = int(npts * ncomp * (int(np.prod(arg_dims, dtype=int)) if arg_dims else 1))
    coeffs = ua.extract_coefficients(processed)
    w = int(sum(c.ufl_element().dim for c in coeffs))
    consts = ua.extract_constants(processed)
    c = int(sum(int(np.prod(k.ufl_shape, dtype=int)) for k in consts))
    dom = ufl.domain.extract_unique_domain(original, expand_mesh_sequence=False) if hasattr(ufl.domain, "extract_unique_domain") else None
    try:
        cel = dom.ufl_coordinate_element()
        gdim = dom.geometric_dimension
        coords = 3 * (cel.dim // gdim)
        cellname = dom.ufl_cell().cellname
        tdim = dom.ufl_cell().topological_dimension
    except Exception:  # noqa: BLE001
        coords, cellname, tdim = 0, None, None
    n_ent, n_perm = 1, 1
    if cellname is not None and points.shape[1] < tdim:
        n_ent = cell_entities(cellname, points.shape[1])
        n_perm = facet_perm_count(cellname) if points.shape[1] == tdim - 1 else 2
    return Extents(A, w, c, coords, 2, 2, n_ent, n_perm, enabled_ranges=None)


def build_kernels(rel, opts):
    """Run the real pipeline up to LNodes. Returns (kernels, errors, aux)."""
    from ffcx.analysis import analyze_ufl_objects
    from ffcx.codegeneration.backend import FFCXBackend
    from ffcx.codegeneration.expression_generator import ExpressionGenerator
    from ffcx.codegeneration.integral_generator import IntegralGenerator
    from ffcx.ir.representation import compute_ir
    from ffcx.options import get_options

    options = get_options(dict(opts))
    path = resolve(rel)
    ufd = ufl.algorithms.load_ufl_file(path)
    objs = ufd.forms + ufd.expressions + ufd.elements
    analysis = analyze_ufl_objects(objs, options["scalar_type"])
    ir = compute_ir(analysis, ufd.object_names, "v", options, False)
    pairs = [(fd, itg) for fd in analysis.form_data for itg in fd.integral_data]
    assert len(pairs) == len(ir.integrals), "integral IR list is not aligned with UFL integral_data"
    kernels = []
    for iir, (fd, itg) in zip(ir.integrals, pairs):
        ext = integral_extents(fd, itg, str(options["part"]))
        domains = sorted(set(k[0] for k in iir.expression.integrand.keys()), key=lambda c: c.name)
        for dom in domains:
            backend = FFCXBackend(iir, options)
            ig = IntegralGenerator(iir, backend)
            prog = ig.generate(dom)
            kernels.append(Kernel(name=f"{rel}:{iir.expression.name[:40]}:{itg.integral_type}:{itg.subdomain_id}:{dom.name}",
                                  kind="integral", integral_type=itg.integral_type, program=prog, ir=iir, ext=ext,
                                  fd=fd, itg=itg, domain=dom, options=options, file=rel))
    for eir, (processed, points, original) in zip(ir.expressions, analysis.expressions):
        ext = expression_extents(processed, original, points, analysis)
        backend = FFCXBackend(eir, options)
        eg = ExpressionGenerator(eir, backend)
        prog = eg.generate()
        kernels.append(Kernel(name=f"{rel}:{eir.expression.name[:40]}:expression", kind="expression",
                              integral_type="expression", program=prog, ir=eir, ext=ext, options=options, file=rel,
                              original=original, points=points, processed=processed))
    return kernels, ir, analysis, ufd
