# options: {}
"""Interior-facet forms over vertex-based (degree 1) spaces on triangle and quadrilateral cells: the numeric C03 check
(checks/e3perm.py) evaluates them for every pair of local vertex numberings of two cells sharing a facet."""
import basix.ufl
from ufl import Coefficient, FacetNormal, FunctionSpace, Mesh, SpatialCoordinate, TestFunction, avg, dS, grad, inner, jump

forms = []
for cell, gd in (("triangle", 2), ("quadrilateral", 2), ("tetrahedron", 3), ("hexahedron", 3)):
    mesh = Mesh(basix.ufl.element("Lagrange", cell, 1, shape=(gd,)))
    V = FunctionSpace(mesh, basix.ufl.element("Lagrange", cell, 1))
    W = FunctionSpace(mesh, basix.ufl.element("Lagrange", cell, 1, shape=(gd,)))
    f, g, h = Coefficient(V), Coefficient(V), Coefficient(W)
    v = TestFunction(V)
    x = SpatialCoordinate(mesh)
    n = FacetNormal(mesh)
    forms += [
        inner(grad(f)("+"), grad(g)("-")) * dS,
        f("+") * g("-") * x[0] * dS + jump(f) * avg(g) * dS,
        inner(h("-"), n("+")) * f("+") * dS,
        inner(jump(grad(f)), n("+")) * avg(v) * dS + g("-") * v("+") * dS,
        # the '-' side's own normal and facet-indexed geometry (on non-affine cells n('-') is not rewritten to -n('+'))
        f("-") * inner(n("-"), h("+")) * dS,
        inner(jump(v, n), h("-")) * dS,
    ]
