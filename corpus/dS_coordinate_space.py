# options: {}
"""Interior-facet integrals whose coefficient/argument lives in exactly the coordinate element's space, restricted to '-'
next to '-' restricted geometry (x, J): the same basix table serves terminals with different '-' offset conventions."""
import basix.ufl
from ufl import Coefficient, FacetNormal, FunctionSpace, Mesh, SpatialCoordinate, TestFunction, dS, div, grad, inner

cell = "triangle"
cel = basix.ufl.element("Lagrange", cell, 1, shape=(2,))
mesh = Mesh(cel)
V = FunctionSpace(mesh, cel)
f, g = Coefficient(V), Coefficient(V)
v = TestFunction(V)
x = SpatialCoordinate(mesh)
n = FacetNormal(mesh)

M1 = div(f)("-") * dS
M2 = inner(f("-"), x("-")) * dS + inner(g("+"), x("+")) * dS
L1 = inner(grad(f)("-") * n("-"), v("-")) * dS + inner(x("-"), v("+")) * dS
forms = [M1, M2, L1]
