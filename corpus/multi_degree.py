# options: {}
"""Several quadrature rules inside one subdomain; vertex scheme next to the default one."""
import basix.ufl
from ufl import Coefficient, FunctionSpace, Mesh, TestFunction, TrialFunction, dx, grad, inner

mesh = Mesh(basix.ufl.element("Lagrange", "triangle", 1, shape=(2,)))
V = FunctionSpace(mesh, basix.ufl.element("Lagrange", "triangle", 2))
u, v, f = TrialFunction(V), TestFunction(V), Coefficient(V)
a = u * v * dx(degree=1) + f * u * v * dx(degree=2) + inner(grad(u), grad(v)) * dx(degree=5)
b = f * u * v * dx(metadata={"quadrature_rule": "vertex"}) + u * v * dx
L = f * f * v * dx(degree=3) + f * v * dx(1, degree=7) + v * dx(1)
forms = [a, b, L]
