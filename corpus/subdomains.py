# options: {}
"""Many subdomain ids, tuple ids, everywhere integrals, several integral types."""
import basix.ufl
from ufl import Coefficient, FunctionSpace, Mesh, TestFunction, TrialFunction, dS, ds, dx

mesh = Mesh(basix.ufl.element("Lagrange", "tetrahedron", 1, shape=(3,)))
V = FunctionSpace(mesh, basix.ufl.element("Lagrange", "tetrahedron", 1))
u, v, f, g = TrialFunction(V), TestFunction(V), Coefficient(V), Coefficient(V)
a = (u * v * dx + 2 * u * v * dx(7) + 3 * u * v * dx(2) + f * u * v * dx((9, 4)) + u * v * ds(5)
     + g * u * v * ds + u("+") * v("-") * dS(6) + u * v * dx((1, 5)) + u * v * dx(3))
forms = [a]
# one id served by two integral groups (overlapping id sets, different metadata)
from ufl import grad, inner  # noqa: E402

b = u * v * dx((1, 2)) + inner(grad(u), grad(v)) * dx(2, degree=1) + f * u * v * dx + g * u * v * dx(5) + u * v * dx(5, degree=1)
forms = [a, b]
