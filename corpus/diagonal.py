# options: {"variants": [{"part": "diagonal"}, {"part": "full"}]}
"""part=diagonal for scalar, blocked and interior-facet forms."""
import basix.ufl
from ufl import Coefficient, FunctionSpace, Mesh, TestFunction, TrialFunction, dS, ds, dx, grad, inner, jump

cell = "triangle"
mesh = Mesh(basix.ufl.element("Lagrange", cell, 1, shape=(2,)))
V = FunctionSpace(mesh, basix.ufl.element("Lagrange", cell, 2))
Vv = FunctionSpace(mesh, basix.ufl.element("Lagrange", cell, 1, shape=(2,)))
D = FunctionSpace(mesh, basix.ufl.element("DG", cell, 1))
u, v, f = TrialFunction(V), TestFunction(V), Coefficient(V)
uu, vv = TrialFunction(Vv), TestFunction(Vv)
du, dv = TrialFunction(D), TestFunction(D)
forms = [f * inner(grad(u), grad(v)) * dx + u * v * ds, inner(grad(uu), grad(vv)) * dx, jump(du) * jump(dv) * dS]
