# options: {"variants": [{"part": "diagonal"}, {"part": "full"}]}
"""part=diagonal for scalar, blocked and interior-facet forms."""
import basix.ufl
from ufl import Coefficient, FunctionSpace, Mesh, TestFunction, TrialFunction, dS, ds, dx, grad, inner, jump

cell = "triangle"
mesh = Mesh(basix.ufl.element("Lagrange", cell, 1, shape=(2,)))
V = FunctionSpace(mesh, basix.ufl.element("Lagrange", cell, 2))
Vv = FunctionSpace(mesh, basix.ufl.element("Lagrange", cell, 1, shape=(2,)))
D = FunctionSpace(mesh, basix.ufl.element("DG", cell, 1))
u, v, f = TrialFunction(V), TestFunction(V), Coefficient(V)
uu, vv = TrialFunction(Vv), TestFunction(Vv)
du, dv = TrialFunction(D), TestFunction(D)
# coupling between components and between sub-elements: those blocks have no entry on the diagonal
P2 = basix.ufl.element("Lagrange", cell, 2, shape=(2,))
P1 = basix.ufl.element("Lagrange", cell, 1)
W = FunctionSpace(mesh, basix.ufl.mixed_element([P2, P1]))
wu, wv = TrialFunction(W), TestFunction(W)
coupled = [(uu[0] * vv[1] + 2 * uu[1] * vv[1] + inner(uu, vv)) * dx,
           (inner(grad(wu[0]), grad(wv[0])) + wu[2] * wv[0] + wu[0] * wv[2] + wu[2] * wv[2] + wu[1] * wv[1]) * dx]
forms = coupled + [f * inner(grad(u), grad(v)) * dx + u * v * ds, inner(grad(uu), grad(vv)) * dx, jump(du) * jump(dv) * dS]
