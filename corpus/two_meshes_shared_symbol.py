# options: {}
"""A form whose integrand mixes the same geometric quantity of two meshes (both map to one C symbol, which must be defined once).
NOTE: UFL's own form signature of such a form depends on the decimal digits of the mesh ids (it differs between ids (0,1) and
(9,10)), so this file is excluded from the determinism / name-stability replays - the instability is UFL's, not FFCx's."""
import basix.ufl
import ufl

m1 = ufl.Mesh(basix.ufl.element("Lagrange", "triangle", 1, shape=(2,)))
m2 = ufl.Mesh(basix.ufl.element("Lagrange", "triangle", 1, shape=(2,)))
V1 = ufl.FunctionSpace(m1, basix.ufl.element("Lagrange", "triangle", 1))
V2 = ufl.FunctionSpace(m2, basix.ufl.element("Lagrange", "triangle", 2))
u, v = ufl.Coefficient(V1), ufl.Coefficient(V2)
# the same geometric quantity of both meshes in one integral (both map to one C symbol, which must be defined once)
x1, x2 = ufl.SpatialCoordinate(m1), ufl.SpatialCoordinate(m2)
p, q = ufl.TrialFunction(V1), ufl.TestFunction(V1)
a = ufl.sin(x1[0]) * ufl.cos(x2[0]) * p * q * ufl.dx(m1) + x1[1] * x2[1] * v * p * q * ufl.ds(m1)
forms = [a]
