# options: {}
"""Taylor-Hood, MINI, symmetric tensors, blocked vectors, H(div)/H(curl), real and DG0 elements."""
import basix.ufl
from ufl import (Coefficient, FunctionSpace, Mesh, TestFunction, TestFunctions, TrialFunction, TrialFunctions, curl, div,
                 dx, grad, inner)

cell = "triangle"
mesh = Mesh(basix.ufl.element("Lagrange", cell, 1, shape=(2,)))
P2v = basix.ufl.element("Lagrange", cell, 2, shape=(2,))
P1 = basix.ufl.element("Lagrange", cell, 1)
TH = FunctionSpace(mesh, basix.ufl.mixed_element([P2v, P1]))
(u, p), (v, q) = TrialFunctions(TH), TestFunctions(TH)
a_th = inner(grad(u), grad(v)) * dx - div(v) * p * dx - q * div(u) * dx

B = basix.ufl.element("Bubble", cell, 3)
mini = basix.ufl.enriched_element([P1, B])
W = FunctionSpace(mesh, basix.ufl.mixed_element([basix.ufl.blocked_element(mini, shape=(2,)), P1]))
(u2, p2), (v2, q2) = TrialFunctions(W), TestFunctions(W)
a_mini = inner(grad(u2), grad(v2)) * dx - div(v2) * p2 * dx + q2 * div(u2) * dx

S = FunctionSpace(mesh, basix.ufl.element("Lagrange", cell, 1, shape=(2, 2), symmetry=True))
sig, tau = TrialFunction(S), TestFunction(S)
a_sym = inner(sig, tau) * dx

RT = FunctionSpace(mesh, basix.ufl.element("RT", cell, 2))
N1 = FunctionSpace(mesh, basix.ufl.element("N1curl", cell, 2))
s, t = TrialFunction(RT), TestFunction(RT)
e, w = TrialFunction(N1), TestFunction(N1)
a_rt = inner(s, t) * dx + div(s) * div(t) * dx
a_n1 = inner(e, w) * dx + curl(e) * curl(w) * dx

R = FunctionSpace(mesh, basix.ufl.real_element(cell, ()))
D0 = FunctionSpace(mesh, basix.ufl.element("DG", cell, 0))
r, d = Coefficient(R), Coefficient(D0)
vv = TestFunction(FunctionSpace(mesh, P1))
L = r * d * vv * dx
forms = [a_th, a_mini, a_sym, a_rt, a_n1, L]
