# options: {}
"""One-sided interior-facet restrictions on several cell types (permuted tables with one restriction)."""
import basix.ufl
from ufl import Coefficient, FunctionSpace, Mesh, TestFunction, TrialFunction, dS, grad, inner

forms = []
for cell, deg, gd in (("triangle", 2, 2), ("tetrahedron", 2, 3), ("hexahedron", 1, 3), ("quadrilateral", 2, 2)):
    mesh = Mesh(basix.ufl.element("Lagrange", cell, 1, shape=(gd,)))
    V = FunctionSpace(mesh, basix.ufl.element("Discontinuous Lagrange", cell, deg))
    u, v, f = TrialFunction(V), TestFunction(V), Coefficient(V)
    forms += [u("+") * v("+") * dS, f("-") * v("-") * dS, inner(grad(u)("-"), grad(v)("+")) * dS]
