# options: {}
"""Quadrature elements and a custom rule."""
import basix.ufl
from ufl import Coefficient, FunctionSpace, Mesh, SpatialCoordinate, TestFunction, dx

cell = "triangle"
mesh = Mesh(basix.ufl.element("Lagrange", cell, 1, shape=(2,)))
V = FunctionSpace(mesh, basix.ufl.element("Lagrange", cell, 1))
Q = FunctionSpace(mesh, basix.ufl.quadrature_element(cell, scheme="default", degree=2))
v, q = TestFunction(V), Coefficient(Q)
L = q * v * dx(metadata={"quadrature_degree": 2})
# one subdomain, two integrals: the one with the quadrature element uses the element's rule, the other one its own
f = Coefficient(FunctionSpace(mesh, basix.ufl.element("Lagrange", cell, 2)))
x = SpatialCoordinate(mesh)
L2 = q * v * dx + f * f * v * dx(degree=4) + x[0] ** 4 * v * dx(metadata={"quadrature_degree": 5})
forms = [L, L2]
