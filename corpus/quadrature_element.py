# options: {}
"""Quadrature elements and a custom rule."""
import basix.ufl
from ufl import Coefficient, FunctionSpace, Mesh, TestFunction, dx

cell = "triangle"
mesh = Mesh(basix.ufl.element("Lagrange", cell, 1, shape=(2,)))
V = FunctionSpace(mesh, basix.ufl.element("Lagrange", cell, 1))
Q = FunctionSpace(mesh, basix.ufl.quadrature_element(cell, scheme="default", degree=2))
v, q = TestFunction(V), Coefficient(Q)
L = q * v * dx(metadata={"quadrature_degree": 2})
forms = [L]
