# options: {}
"""One form integrating over two different meshes with the same integral type and subdomain id (the generated objects need
distinct names)."""
import basix.ufl
import ufl

m1 = ufl.Mesh(basix.ufl.element("Lagrange", "triangle", 1, shape=(2,)))
m2 = ufl.Mesh(basix.ufl.element("Lagrange", "triangle", 1, shape=(2,)))
V1 = ufl.FunctionSpace(m1, basix.ufl.element("Lagrange", "triangle", 1))
V2 = ufl.FunctionSpace(m2, basix.ufl.element("Lagrange", "triangle", 2))
u, v = ufl.Coefficient(V1), ufl.Coefficient(V2)
M = u * ufl.dx(m1) + v * v * ufl.dx(m2) + u * ufl.ds(m1) + v * ufl.ds(m2)
forms = [M]
