# options: {}
"""Every comparison and logic node."""
import basix.ufl
from ufl import (And, Coefficient, FunctionSpace, Mesh, Not, Or, SpatialCoordinate, TestFunction, conditional, dx, eq, ge,
                 gt, le, lt, ne)

cell = "triangle"
mesh = Mesh(basix.ufl.element("Lagrange", cell, 1, shape=(2,)))
V = FunctionSpace(mesh, basix.ufl.element("Lagrange", cell, 1))
v, f, g = TestFunction(V), Coefficient(V), Coefficient(V)
x = SpatialCoordinate(mesh)
c1 = conditional(And(lt(f, g), Or(ge(x[0], 0.25), le(x[1], 0.75))), f, g)
c2 = conditional(Not(eq(f, 1.0)), conditional(ne(g, f), -f, 2.0 * g), conditional(gt(f, -1.0), f * g, -1.0))
L = c1 * v * dx + c2 * v * dx
forms = [L]
