# options: {}
"""Scalar, vector and tensor constants used in a different order than declared."""
import basix.ufl
from ufl import Constant, FunctionSpace, Mesh, TensorConstant, TestFunction, TrialFunction, VectorConstant, dot, ds, dx, grad, inner

mesh = Mesh(basix.ufl.element("Lagrange", "tetrahedron", 1, shape=(3,)))
V = FunctionSpace(mesh, basix.ufl.element("Lagrange", "tetrahedron", 1))
u, v = TrialFunction(V), TestFunction(V)
K = TensorConstant(mesh)
b = VectorConstant(mesh)
s = Constant(mesh)
a = s * u * v * dx + inner(dot(K, grad(u)), grad(v)) * dx + dot(b, grad(u)) * v * dx
L = K[2, 1] * v * ds + b[2] * v * dx + s * v * dx
forms = [a, L]
# non-square tensor constants (row-major flattening is not symmetric in the extents)
W = Constant(mesh, shape=(2, 3))
T = Constant(mesh, shape=(3, 2))
M = (W[0, 2] + W[1, 0] + W[1, 2]) * v * dx + (T[2, 1] + T[0, 1] + T[2, 0]) * v * ds
forms = [a, L, M]
