# options: {}
"""Vertex integrals and non-trivial exterior facets."""
import basix.ufl
from ufl import Coefficient, FunctionSpace, Measure, Mesh, TestFunction, TrialFunction, ds

forms = []
for cell, gd in (("interval", 1), ("triangle", 2), ("tetrahedron", 3)):
    mesh = Mesh(basix.ufl.element("Lagrange", cell, 1, shape=(gd,)))
    V = FunctionSpace(mesh, basix.ufl.element("Lagrange", cell, 2))
    u, v, f = TrialFunction(V), TestFunction(V), Coefficient(V)
    dP = Measure("dP", domain=mesh)
    forms += [f * u * v * dP, f * v * dP(2) + v * ds]
