# options: {"variants": [{"sum_factorization": True}, {"sum_factorization": False}]}
"""Macro (iso) argument elements on tensor-product cells: with and without sum factorisation the quadrature rule must be the
macro rule (piecewise integration), so both kernels give the same tensor."""
import basix.ufl
from ufl import Coefficient, FunctionSpace, Mesh, TestFunction, TrialFunction, dx, grad, inner

forms = []
for cell, gd in (("quadrilateral", 2), ("hexahedron", 3)):
    mesh = Mesh(basix.ufl.element("Lagrange", cell, 1, shape=(gd,)))
    V = FunctionSpace(mesh, basix.ufl.element("iso", cell, 1))
    u, v, f = TrialFunction(V), TestFunction(V), Coefficient(V)
    forms += [u * v * dx, f * v * dx + inner(grad(f), grad(v)) * dx]
