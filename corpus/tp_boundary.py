# options: {"variants": [{"sum_factorization": True}, {"sum_factorization": False}]}
"""Tensor-product cell integral plus a boundary term: sum factorisation applies to the cell integral only."""
import basix, basix.ufl
from ufl import FunctionSpace, Mesh, TestFunction, TrialFunction, dx, ds, grad, inner
ct = basix.CellType.quadrilateral
el = basix.ufl.wrap_element(basix.create_tp_element(basix.ElementFamily.P, ct, 2, basix.LagrangeVariant.gll_warped))
cel = basix.ufl.blocked_element(basix.ufl.wrap_element(basix.create_tp_element(basix.ElementFamily.P, ct, 1, basix.LagrangeVariant.gll_warped)), shape=(2,))
mesh = Mesh(cel)
V = FunctionSpace(mesh, el)
u, v = TrialFunction(V), TestFunction(V)
a = inner(grad(u), grad(v)) * dx + u * v * ds
forms = [a]
