# options: {}
"""Interior-facet integrals with two quadrature rules of which only ONE needs permuted tables (the flag
needs_facet_permutations is a property of the whole kernel), in both orders of the rules."""
import basix.ufl
from ufl import FunctionSpace, Mesh, TestFunction, TrialFunction, dS, jump

forms = []
for cell, gd in (("triangle", 2), ("tetrahedron", 3)):
    mesh = Mesh(basix.ufl.element("Lagrange", cell, 1, shape=(gd,)))
    V = FunctionSpace(mesh, basix.ufl.element("Lagrange", cell, 2))
    u, v = TrialFunction(V), TestFunction(V)
    forms += [u("+") * v("+") * dS(degree=1) + jump(u) * jump(v) * dS(degree=4),
              jump(u) * jump(v) * dS(degree=1) + u("+") * v("+") * dS(degree=4),
              u("+") * v("+") * dS(degree=0) + u("-") * v("-") * dS(degree=2)]
