# options: {}
"""Coefficients that drop out / are used by only some integrals; different elements."""
import basix.ufl
from ufl import Coefficient, FunctionSpace, Mesh, TestFunction, TrialFunction, derivative, ds, dx, inner

mesh = Mesh(basix.ufl.element("Lagrange", "triangle", 1, shape=(2,)))
P2 = FunctionSpace(mesh, basix.ufl.element("Lagrange", "triangle", 2))
P1 = FunctionSpace(mesh, basix.ufl.element("Lagrange", "triangle", 1))
Vv = FunctionSpace(mesh, basix.ufl.element("Lagrange", "triangle", 1, shape=(2,)))
u, v = TrialFunction(P1), TestFunction(P1)
f, g, h = Coefficient(P2), Coefficient(P1), Coefficient(Vv)
L = f * v * dx(1) + g * v * dx(2) + inner(h, h) * v * ds(3)
F = (g * g + f * g) * v * dx
J = derivative(F, g, u)  # f survives, g survives; d/dg of f*g drops nothing; add a linear-in-k term:
k = Coefficient(P1)
F2 = k * v * dx + g * g * v * dx
J2 = derivative(F2, k, u)  # k drops out of the Jacobian
M = f * dx(1) + h[0] * dx(2)
forms = [L, J, J2, M]
