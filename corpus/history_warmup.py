# options: {}
"""Many (cell, degree, scheme) combinations with ordinary elements: compiled first in the 'history' variants of the
determinism replay so that any process-wide cache is populated before the module under test is generated."""
import basix.ufl
from ufl import Coefficient, FunctionSpace, Mesh, TestFunction, TrialFunction, ds, dx, grad, inner

forms = []
for cell, gd in (("interval", 1), ("triangle", 2), ("quadrilateral", 2), ("tetrahedron", 3), ("hexahedron", 3)):
    mesh = Mesh(basix.ufl.element("Lagrange", cell, 1, shape=(gd,)))
    for deg in (1, 2):
        V = FunctionSpace(mesh, basix.ufl.element("Lagrange", cell, deg))
        u, v, f = TrialFunction(V), TestFunction(V), Coefficient(V)
        forms += [u * v * dx + f * inner(grad(u), grad(v)) * dx(degree=deg + 2) + u * v * ds]
