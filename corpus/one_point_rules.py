# Integrals whose subdomain mixes a ONE-POINT quadrature rule with a multi-point rule, using terminals whose value at the
# single point is special (1 or 0) although the function is not constant (C11: each integrand is evaluated at the points
# of its own rule; nothing derived from the one-point tabulation may be reused by the other rule).
import basix.ufl
import ufl

cell = "triangle"
mesh = ufl.Mesh(basix.ufl.element("Lagrange", cell, 1, shape=(2,)))
B = ufl.FunctionSpace(mesh, basix.ufl.element("Bubble", cell, 3))
V = ufl.FunctionSpace(mesh, basix.ufl.element("Lagrange", cell, 1))
b = ufl.Coefficient(B)
f = ufl.Coefficient(V)
v = ufl.TestFunction(V)
x = ufl.SpatialCoordinate(mesh)

# b == 1 at the centroid (the degree-1 rule's only point)
M = b * ufl.dx(degree=1) + b * b * ufl.dx(degree=4)
# same with an argument and a facet integral
L = b * v * ufl.dx(degree=1) + b * b * v * ufl.dx(degree=3) + x[0] * v * ufl.ds(degree=1) + x[0] ** 3 * v * ufl.ds(degree=3)

# b takes the same value (1/2) at the three symmetric points of the degree-2 rule
M2 = b * ufl.dx(degree=2) + b * b * ufl.dx(degree=4)
# two rules under which b is constant over the points, with different constants
M3 = b * ufl.dx(degree=1) + b * b * ufl.dx(degree=2)

forms = [M, L, M2, M3]
