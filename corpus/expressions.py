# options: {}
"""Expressions: rank 0/1, scalar/vector/tensor valued, cell points and facet points."""
import basix.ufl
import numpy as np
from ufl import Coefficient, Constant, FunctionSpace, Mesh, TrialFunction, as_tensor, grad, outer

cell = "triangle"
mesh = Mesh(basix.ufl.element("Lagrange", cell, 1, shape=(2,)))
V = FunctionSpace(mesh, basix.ufl.element("Lagrange", cell, 2))
Vv = FunctionSpace(mesh, basix.ufl.element("Lagrange", cell, 1, shape=(2,)))
f, g, u = Coefficient(V), Coefficient(Vv), TrialFunction(V)
uv = TrialFunction(Vv)
k = Constant(mesh)
pts = np.array([[0.1, 0.2], [0.5, 0.25], [0.0, 1.0]])
fpts = np.array([[0.25], [0.75]])
# tensor-valued, not symmetric, with terminals whose table is identically zero (second derivatives of P1): the zero-table
# elimination rebuilds the expression and must keep the component order
V1 = FunctionSpace(mesh, basix.ufl.element("Lagrange", cell, 1))
p1, q1 = Coefficient(V1), TrialFunction(V1)
zt = [(as_tensor([[p1, p1.dx(0).dx(0)], [p1.dx(1), 2 * p1.dx(0)]]), pts),
      (as_tensor([[q1.dx(1), q1, q1.dx(0).dx(1)], [q1.dx(0), q1.dx(1).dx(1), 3 * q1]]), pts)]
# a coefficient that preprocessing drops (its derivative vanishes) and that has a LOWER count than one that remains: the
# remaining coefficients are packed densely, in original order
D0 = FunctionSpace(mesh, basix.ufl.element("DG", cell, 0))
k0, g2, h2 = Coefficient(D0), Coefficient(V), Coefficient(V)
dropped = [(h2 * (g2 + k0).dx(0), pts), (h2 * grad(k0 * k0 + g2)[1] + f, pts)]
expressions = zt + dropped + [(f * k, pts), (grad(f), pts), (outer(g, grad(f)), pts), (grad(u), pts), (outer(uv, g), pts), (grad(f), fpts), (u * g, fpts)]
