# options: {}
"""Expressions: rank 0/1, scalar/vector/tensor valued, cell points and facet points."""
import basix.ufl
import numpy as np
from ufl import Coefficient, Constant, FunctionSpace, Mesh, TrialFunction, grad, outer

cell = "triangle"
mesh = Mesh(basix.ufl.element("Lagrange", cell, 1, shape=(2,)))
V = FunctionSpace(mesh, basix.ufl.element("Lagrange", cell, 2))
Vv = FunctionSpace(mesh, basix.ufl.element("Lagrange", cell, 1, shape=(2,)))
f, g, u = Coefficient(V), Coefficient(Vv), TrialFunction(V)
uv = TrialFunction(Vv)
k = Constant(mesh)
pts = np.array([[0.1, 0.2], [0.5, 0.25], [0.0, 1.0]])
fpts = np.array([[0.25], [0.75]])
expressions = [(f * k, pts), (grad(f), pts), (outer(g, grad(f)), pts), (grad(u), pts), (outer(uv, g), pts), (grad(f), fpts), (u * g, fpts)]
