# options: {"variants": [{"sum_factorization": True}, {"sum_factorization": False}]}
"""Two quadrature rules in one integral on tensor-product cells (sum factorisation names its 1D factor tables per rule)."""
import basix
import basix.ufl
from ufl import Coefficient, FunctionSpace, Mesh, TestFunction, TrialFunction, dx, grad, inner

forms = []
for cell, gd in (("quadrilateral", 2), ("hexahedron", 3)):
    ct = basix.CellType[cell]
    el = basix.ufl.wrap_element(basix.create_tp_element(basix.ElementFamily.P, ct, 2, basix.LagrangeVariant.gll_warped))
    cel = basix.ufl.blocked_element(basix.ufl.wrap_element(basix.create_tp_element(basix.ElementFamily.P, ct, 1, basix.LagrangeVariant.gll_warped)), shape=(gd,))
    mesh = Mesh(cel)
    V = FunctionSpace(mesh, el)
    u, v, f = TrialFunction(V), TestFunction(V), Coefficient(V)
    forms += [inner(grad(u), grad(v)) * dx(degree=2) + f * u * v * dx(degree=4), f * v * dx(degree=1) + f * f * v * dx(degree=3)]
