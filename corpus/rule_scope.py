# options: {}
"""A one-point rule next to a multi-point rule in one subdomain, sharing a coefficient (piecewise scope fallback)."""
import basix.ufl
from ufl import Coefficient, FunctionSpace, Mesh, TestFunction, TrialFunction, dx

mesh = Mesh(basix.ufl.element("Lagrange", "triangle", 1, shape=(2,)))
V = FunctionSpace(mesh, basix.ufl.element("Lagrange", "triangle", 1))
u, v, f = TrialFunction(V), TestFunction(V), Coefficient(V)
L = f * v * dx(degree=1) + f * f * v * dx(degree=4)
a = f * u * v * dx(degree=0) + f * u * v * dx(degree=3)
forms = [L, a]
# two different rules with the same number of points and structurally alike integrands
g = Coefficient(V)
c = f * v * dx(scheme="vertex") + g * v * dx(degree=2)
forms = [L, a, c]
