# options: {}
"""Mixed-dimensional exterior-facet coupling (test function on an interval sub-mesh of a triangle mesh) using the same kind
of geometry table (reference cell volume, facet data) of BOTH meshes in one kernel."""
import basix.ufl
import ufl

gdim = 2
K = ufl.Mesh(basix.ufl.element("Lagrange", "triangle", 1, shape=(gdim,)))
E = ufl.Mesh(basix.ufl.element("Lagrange", "interval", 1, shape=(gdim,)))
V = ufl.FunctionSpace(K, basix.ufl.element("Lagrange", "triangle", 1))
W = ufl.FunctionSpace(E, basix.ufl.element("Lagrange", "interval", 1))
u = ufl.TrialFunction(V)
q = ufl.TestFunction(W)
ds = ufl.Measure("ds", domain=K)
forms = [(ufl.CellVolume(E) / ufl.CellVolume(K)) * u * q * ds, u * q * ds]
