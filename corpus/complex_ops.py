# options: {"variants": [{"scalar_type": "complex128"}, {"scalar_type": "complex64"}]}
"""Complex mode: conj, real, imag, complex constant, abs, sqrt."""
import basix.ufl
from ufl import Coefficient, Constant, FunctionSpace, Mesh, TestFunction, TrialFunction, conj, dx, grad, imag, inner, real, sqrt

cell = "triangle"
mesh = Mesh(basix.ufl.element("Lagrange", cell, 1, shape=(2,)))
V = FunctionSpace(mesh, basix.ufl.element("Lagrange", cell, 1))
u, v, f = TrialFunction(V), TestFunction(V), Coefficient(V)
k = Constant(mesh)
a = inner(grad(u), grad(v)) * dx + 1j * k * inner(u, v) * dx + conj(f) * inner(u, v) * dx
L = real(f) * inner(1.0, v) * dx + imag(f) * inner(1.0, v) * dx + abs(f) * inner(1.0, v) * dx + sqrt(f) * inner(2.0 + 3j, v) * dx
eps = Constant(mesh)
a2 = inner(u, v) * dx + inner(eps * grad(u), grad(v)) * dx + inner(f * u, v) * dx
# first term of the dof block has a purely real (geometric) factor, the later ones a complex one
a3 = inner(u, v) * dx + inner(eps * grad(u), grad(v)) * dx
forms = [a, L, a2, a3]
