# options: {}
"""Rarely exercised inputs: pyramid cells, ridge integrals on a tetrahedron, a Real-space coefficient and a symmetric tensor in
facet integrals, vertex integrals with a coefficient."""
import basix.ufl
import ufl
from ufl import Coefficient, FacetNormal, FunctionSpace, Measure, Mesh, TestFunction, TrialFunction, dP, dS, ds, dx, grad, inner

forms = []
# pyramid
mesh = Mesh(basix.ufl.element("Lagrange", "pyramid", 1, shape=(3,)))
V = FunctionSpace(mesh, basix.ufl.element("Lagrange", "pyramid", 1))
u, v, f = TrialFunction(V), TestFunction(V), Coefficient(V)
forms += [inner(grad(u), grad(v)) * dx + f * u * v * dx, f * v * dx]
# tetrahedron: ridge integral, Real coefficient and symmetric tensor on facets
mesh = Mesh(basix.ufl.element("Lagrange", "tetrahedron", 1, shape=(3,)))
V = FunctionSpace(mesh, basix.ufl.element("Lagrange", "tetrahedron", 2))
R = FunctionSpace(mesh, basix.ufl.real_element("tetrahedron", ()))
S = FunctionSpace(mesh, basix.ufl.element("Lagrange", "tetrahedron", 1, shape=(3, 3), symmetry=True))
u, v, f, r, s = TrialFunction(V), TestFunction(V), Coefficient(V), Coefficient(R), Coefficient(S)
n = FacetNormal(mesh)
dr = Measure("dr", domain=mesh)
forms += [f * v * dr, r * f * v * ds + r("+") * f("-") * v("+") * dS, inner(s * n, grad(v)) * ds, f * v * dP]
