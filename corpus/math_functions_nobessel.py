# options: {"variants": [{"scalar_type": "float64"}, {"scalar_type": "float32"}]}
"""Every UFL math function except the Bessel functions (which the numba backend rejects)."""
import basix.ufl
from ufl import (Coefficient, FunctionSpace, Mesh, TestFunction, acos, asin, atan, atan2, cos, cosh, dx, erf,
                 exp, ln, max_value, min_value, sin, sinh, sqrt, tan, tanh)

cell = "triangle"
mesh = Mesh(basix.ufl.element("Lagrange", cell, 1, shape=(2,)))
V = FunctionSpace(mesh, basix.ufl.element("Lagrange", cell, 1))
v, f, g = TestFunction(V), Coefficient(V), Coefficient(V)
L = (sqrt(f) + exp(f) + ln(f) + cos(f) + sin(f) + tan(f) + acos(f) + asin(f) + atan(f) + cosh(f) + sinh(f) + tanh(f)
     + erf(f) + atan2(f, g) + min_value(f, g) + max_value(f, g) + f**g + abs(f)) * v * dx
forms = [L]
