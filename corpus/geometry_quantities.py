# options: {}
"""Vertex- and edge-based geometric quantities (FFCx's reference geometry tables: vertices, edge vertices, facet edges)."""
import basix.ufl
from ufl import (CellDiameter, CellVolume, Circumradius, Coefficient, FacetArea, FacetNormal, FunctionSpace, MaxCellEdgeLength,
                 MaxFacetEdgeLength, Mesh, MinCellEdgeLength, MinFacetEdgeLength, TestFunction, avg, dS, ds, dx, inner)
from ufl.geometry import CellEdgeVectors, CellVertices, FacetEdgeVectors

forms = []
for cell, gd in (("triangle", 2), ("tetrahedron", 3), ("quadrilateral", 2), ("hexahedron", 3)):
    mesh = Mesh(basix.ufl.element("Lagrange", cell, 1, shape=(gd,)))
    V = FunctionSpace(mesh, basix.ufl.element("Lagrange", cell, 1))
    f, v = Coefficient(V), TestFunction(V)
    h, hmin, hmax = CellDiameter(mesh), MinCellEdgeLength(mesh), MaxCellEdgeLength(mesh)
    cv, ce = CellVertices(mesh), CellEdgeVectors(mesh)
    forms += [f * (h + 2 * hmin + 3 * hmax) * v * dx, (cv[1, 0] + cv[2, gd - 1] * ce[2, 0] + ce[0, gd - 1]) * v * dx,
              h("-") * avg(hmin) * hmax("+") * v("+") * dS + cv[1, 0]("-") * ce[1, 1]("+") * v("-") * dS]
    if gd == 3:
        fev = FacetEdgeVectors(mesh)
        forms += [(MinFacetEdgeLength(mesh) + 2 * MaxFacetEdgeLength(mesh)) * f * v * ds, (fev[0, 0] + 2 * fev[1, 1] + 3 * fev[2, 2]) * v * ds,
                  MinFacetEdgeLength(mesh)("-") * fev[1, 2]("+") * v("-") * dS]
    if cell in ("triangle", "tetrahedron"):
        forms += [CellVolume(mesh) * Circumradius(mesh) * FacetArea(mesh) * inner(FacetNormal(mesh), FacetNormal(mesh)) * v * ds]
