# options: {}
"""Manifolds and non-affine geometry."""
import basix.ufl
from ufl import Coefficient, FacetNormal, FunctionSpace, Mesh, TestFunction, TrialFunction, dS, ds, dx, grad, inner

forms = []
for cell, gd, gdeg in (("triangle", 3, 1), ("interval", 2, 1), ("triangle", 2, 2), ("quadrilateral", 2, 1), ("tetrahedron", 3, 2)):
    mesh = Mesh(basix.ufl.element("Lagrange", cell, gdeg, shape=(gd,)))
    V = FunctionSpace(mesh, basix.ufl.element("Lagrange", cell, 1))
    u, v, f = TrialFunction(V), TestFunction(V), Coefficient(V)
    forms += [inner(grad(u), grad(v)) * dx + f * u * v * ds, f("+") * v("-") * dS]
