# options: {"variants": [{"sum_factorization": True}, {"sum_factorization": False}]}
"""Two tensor-product elements of equal degree but different Lagrange variant in one integral."""
import basix
import basix.ufl
from ufl import Coefficient, FunctionSpace, Mesh, TestFunction, TrialFunction, dx, grad, inner

ct = basix.CellType.quadrilateral
gll = basix.ufl.wrap_element(basix.create_tp_element(basix.ElementFamily.P, ct, 3, basix.LagrangeVariant.gll_warped))
equi = basix.ufl.wrap_element(basix.create_tp_element(basix.ElementFamily.P, ct, 3, basix.LagrangeVariant.equispaced))
cel = basix.ufl.blocked_element(basix.ufl.wrap_element(basix.create_tp_element(basix.ElementFamily.P, ct, 1, basix.LagrangeVariant.gll_warped)), shape=(2,))
mesh = Mesh(cel)
V, W = FunctionSpace(mesh, gll), FunctionSpace(mesh, equi)
u, v, f = TrialFunction(V), TestFunction(V), Coefficient(W)
forms = [f * inner(grad(u), grad(v)) * dx, f * u * v * dx]
