# options: {}
"""Prism: ds has two facet types (two kernels per integral), followed by a vertex integral."""
import basix.ufl
from ufl import FunctionSpace, Measure, Mesh, TestFunction, TrialFunction, ds, dx

mesh = Mesh(basix.ufl.element("Lagrange", "prism", 1, shape=(3,)))
V = FunctionSpace(mesh, basix.ufl.element("Lagrange", "prism", 1))
u, v = TrialFunction(V), TestFunction(V)
dP = Measure("dP", domain=mesh)
a = u * v * ds + u * v * dP
b = u * v * dx + u * v * ds(2) + u * v * ds(1)
forms = [a, b]
