# options: {"variants": [{"sum_factorization": True}, {"sum_factorization": False}]}
"""Sum factorisation requested for cell integrals in which only SOME (or none) of the elements have a tensor-product
factorisation: tensor-product arguments over the standard (non-tensor-product) coordinate element, a standard Lagrange
coefficient next to tensor-product arguments, and a form without any tensor-product element."""
import basix
import basix.ufl
from ufl import Coefficient, FunctionSpace, Mesh, TestFunction, TrialFunction, dx, grad, inner

forms = []
for cell, gd in (("quadrilateral", 2), ("hexahedron", 3)):
    ct = basix.CellType[cell]
    tp = basix.ufl.wrap_element(basix.create_tp_element(basix.ElementFamily.P, ct, 2, basix.LagrangeVariant.gll_warped))
    mesh = Mesh(basix.ufl.element("Lagrange", cell, 1, shape=(gd,)))
    V = FunctionSpace(mesh, tp)
    Q = FunctionSpace(mesh, basix.ufl.element("Lagrange", cell, 2))
    u, v, f = TrialFunction(V), TestFunction(V), Coefficient(Q)
    p, q = TrialFunction(Q), TestFunction(Q)
    forms += [inner(grad(u), grad(v)) * dx, f * u * v * dx, f * p * q * dx]
