# options: {"variants": [{"scalar_type": "complex128"}, {"scalar_type": "complex64"}]}
"""Expression kernels in complex mode: real and imaginary parts."""
import basix.ufl
import numpy as np
from ufl import Coefficient, FunctionSpace, Mesh, TrialFunction, as_vector, conj, grad, imag, inner, real

cell = "triangle"
mesh = Mesh(basix.ufl.element("Lagrange", cell, 1, shape=(2,)))
V = FunctionSpace(mesh, basix.ufl.element("Lagrange", cell, 2))
W = FunctionSpace(mesh, basix.ufl.element("Lagrange", cell, 1, shape=(2,)))
f, g, h = Coefficient(W), Coefficient(W), Coefficient(V)
u = TrialFunction(V)
pts = np.array([[0.1, 0.2], [0.5, 0.25], [0.3, 0.6]])
expressions = [(real(h) * grad(h) + imag(h) * conj(grad(h)), pts)]
