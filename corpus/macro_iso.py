# options: {}
"""Macro (iso) element: its quadrature rule depends on the polyset type of the elements, not only on cell and degree."""
import basix.ufl
from ufl import FunctionSpace, Mesh, TestFunction, TrialFunction, dx

mesh = Mesh(basix.ufl.element("Lagrange", "triangle", 1, shape=(2,)))
V = FunctionSpace(mesh, basix.ufl.element("iso", "triangle", 1))
u, v = TrialFunction(V), TestFunction(V)
forms = [u * v * dx]
