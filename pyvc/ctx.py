"""Path context: decisions (replayed DFS), path condition, solver access, traces."""

from __future__ import annotations

import z3

from .values import SV, EngineError

SOLVER_TIMEOUT_MS = 10000


class PathAbort(Exception):
    """Current path is infeasible or was cut (assume False)."""


class Budget(EngineError):
    pass


class Ctx:
    def __init__(self, prefix=None, max_decisions=400):
        self.prefix = list(prefix or [])  # decisions to replay
        self.decisions = []  # (choice, n) made on this path
        self.pc = []  # list of z3 Bool terms
        self.solver = z3.Solver()
        self.solver.set("timeout", SOLVER_TIMEOUT_MS)
        self.trace = []  # effect trace (C14/C15)
        self.ghost = {}
        self.max_decisions = max_decisions
        self.notes = []  # havoc notes etc.
        self.obligations = []  # (name, z3 goal, info) collected along the path (callee requires, asserts)
        self.inputs = {}  # param name -> value (for replay)
        self.unknown_branches = 0

    # -- decisions ------------------------------------------------------------------
    def decide(self, n, label=""):
        if n <= 1:
            return 0
        k = len(self.decisions)
        if k >= self.max_decisions:
            raise Budget("too many decisions on one path")
        if k < len(self.prefix):
            c = self.prefix[k]
        else:
            c = 0
        self.decisions.append((c, n, label))
        return c

    def next_prefix(self):
        d = [(c, n) for c, n, _ in self.decisions]
        while d and d[-1][0] + 1 >= d[-1][1]:
            d.pop()
        if not d:
            return None
        c, n = d.pop()
        return [x for x, _ in d] + [c + 1]

    # -- path condition ---------------------------------------------------------------
    def assume(self, z):
        if isinstance(z, bool):
            if not z:
                raise PathAbort()
            return
        if isinstance(z, SV):
            z = z.z
        z = z3.simplify(z)
        if z3.is_true(z):
            return
        if z3.is_false(z):
            raise PathAbort()
        self.pc.append(z)
        self.solver.add(z)

    def check(self, *extra):
        """sat / unsat / unknown of pc + extra."""
        self.solver.push()
        try:
            for e in extra:
                self.solver.add(e)
            r = self.solver.check()
        finally:
            self.solver.pop()
        return r

    def feasible(self, z):
        r = self.check(z)
        if r == z3.unknown:
            self.unknown_branches += 1
            return True
        return r == z3.sat

    def branch(self, cond, label=""):
        """Turn a symbolic/concrete condition into a python bool for this path."""
        if isinstance(cond, bool):
            return cond
        if not isinstance(cond, SV):
            raise EngineError(f"branch on non-boolean {cond!r}")
        z = cond.z
        if cond.kind != "bool":
            if cond.kind in ("int", "real"):
                z = z != 0
            elif cond.kind == "str":
                z = z3.Length(z) > 0
            else:
                raise EngineError(f"truthiness of {cond!r}")
        z = z3.simplify(z)
        if z3.is_true(z):
            return True
        if z3.is_false(z):
            return False
        t = self.feasible(z)
        f = self.feasible(z3.Not(z))
        if t and not f:
            return True
        if f and not t:
            return False
        if not t and not f:
            raise PathAbort()
        c = self.decide(2, label)
        if c == 0:
            self.assume(z)
            return True
        self.assume(z3.Not(z))
        return False

    def valid(self, z):
        """Is z implied by the path condition? -> 'proved' | ('refuted', model) | 'unknown'."""
        self.solver.push()
        try:
            self.solver.add(z3.Not(z))
            r = self.solver.check()
            if r == z3.unsat:
                return "proved", None
            if r == z3.sat:
                return "refuted", self.solver.model()
            return "unknown", self.solver.reason_unknown()
        finally:
            self.solver.pop()

    def scope(self):
        """Temporary hypotheses (for all-quantified clause bodies): pushed on entry, discarded on exit."""
        import contextlib

        @contextlib.contextmanager
        def cm():
            n = len(self.pc)
            self.solver.push()
            try:
                yield
            finally:
                self.solver.pop()
                del self.pc[n:]

        return cm()

    def event(self, *ev):
        self.trace.append(ev)


def explore(run_one, max_paths=4000):
    """Enumerate all paths. run_one(ctx) -> anything; yields (ctx, outcome)."""
    prefix = []
    n = 0
    while prefix is not None:
        ctx = Ctx(prefix)
        try:
            out = ("ok", run_one(ctx))
        except PathAbort:
            out = ("infeasible", None)
        yield ctx, out
        n += 1
        if n > max_paths:
            raise Budget(f"more than {max_paths} paths")
        prefix = ctx.next_prefix()
