"""Symbolic-length lists (list algebra). See DESIGN.md 2.2."""
from .values import Unsupported


def binop(interp, op, a, b):
    raise Unsupported("symbolic-length list operation")
