"""Symbolic-length lists: a small list algebra for E1's prove mode (DESIGN.md 2.2).

A list is a concatenation of segments of symbolic length:

  Base    an input list X of length n with elements X(k) (uninterpreted function; elements may carry attributes)
  Perm    the result sigma of `np.argsort(X)`: a permutation of range(n) that sorts X (external contract); its axioms are
          instantiated at every index term that is accessed
  Gather  [X[sigma[k]] for k in range(n)]
  Host    a concrete python list
  Map     per-element function of another segment (e.g. len(d) for d in ...); only `sum` consumes it

Identities used (textbook facts, listed as assumptions L-LIST): len(concat) = sum of lens; drop(concat(A, B), len A) = B;
sum over concat = sum of sums; sum(g o Gather(X, sigma)) = sum(g o X) for a permutation sigma of range(len X).
Every side condition is discharged by the solver under the current path condition; when it is not provable the operation
is `Unsupported` and the obligation stays undecided (the structurally bounded contracts decide it instead).
"""

from __future__ import annotations

import ast

import z3

from . import models
from .values import SV, EngineError, Unsupported, fresh_name


class Elem:
    """A symbolic element of a Base list of opaque objects: attribute values are functions of (base, index)."""

    def __init__(self, base, k):
        self.base = base
        self.k = k  # z3 Int term

    def __repr__(self):
        return f"{self.base.name}[{self.k}]"


class Base:
    kind = "base"

    def __init__(self, name, n: SV, sort="int", attrs=()):
        self.name = name
        self.n = n
        self.sort = sort  # 'int' | 'str' | 'obj'
        self.attrs = tuple(attrs)  # for 'obj': names of integer attributes (e.g. 'len')
        zs = {"int": z3.IntSort(), "str": z3.StringSort(), "obj": z3.IntSort()}[sort]
        self.f = z3.Function(f"{name}_elem", z3.IntSort(), zs)
        self.attr_f = {a: z3.Function(f"{name}_{a}", z3.IntSort(), z3.IntSort()) for a in self.attrs}
        self.sums = {}

    def length(self):
        return self.n.z

    def at(self, interp, k):
        if self.sort == "obj":
            return Elem(self, k)
        return SV(self.f(k), self.sort)

    def total(self, attr):
        """Uninterpreted value of sum(attr(X[k]) for k < n)."""
        if attr not in self.sums:
            self.sums[attr] = z3.Int(f"sum_{attr}_{self.name}")
        return self.sums[attr]


class Perm:
    kind = "perm"

    def __init__(self, interp, src: Base):
        self.src = src
        self.n = src.n
        self.name = fresh_name(f"argsort_{src.name}")
        self.f = z3.Function(self.name, z3.IntSort(), z3.IntSort())
        self.seen = []

    def length(self):
        return self.n.z

    def at(self, interp, k):
        """sigma(k) with the permutation/sortedness facts instantiated at k."""
        n = self.n.z
        s = self.f(k)
        ctx = interp.ctx
        ctx.assume(z3.Implies(z3.And(k >= 0, k < n), z3.And(s >= 0, s < n)))
        if self.src.sort == "int":
            X = self.src.f
            ctx.assume(z3.Implies(z3.And(k >= 0, k + 1 < n), X(s) <= X(self.f(k + 1))))
            ctx.assume(z3.Implies(z3.And(k - 1 >= 0, k < n), X(self.f(k - 1)) <= X(s)))
        for j in self.seen:  # injectivity on accessed indices
            ctx.assume(z3.Implies(z3.And(k >= 0, k < n, j >= 0, j < n, k != j), s != self.f(j)))
        self.seen.append(k)
        return PermIndex(self, k, SV(s, "int"))


class PermIndex:
    """The value sigma(k): behaves as an int index; keeps its provenance for Gather recognition."""

    def __init__(self, perm, k, sv):
        self.perm = perm
        self.k = k
        self.sv = sv


class Gather:
    kind = "gather"

    def __init__(self, src: Base, perm: Perm):
        self.src = src
        self.perm = perm

    def length(self):
        return self.perm.n.z

    def at(self, interp, k):
        pi = self.perm.at(interp, k)
        return self.src.at(interp, pi.sv.z)


class Host:
    kind = "host"

    def __init__(self, items):
        self.items = list(items)

    def length(self):
        return z3.IntVal(len(self.items))


class SList(models.SList):
    def __init__(self, segs):
        self.segs = [s for s in segs if not (isinstance(s, Host) and not s.items)]

    @property
    def length(self):
        tot = z3.IntVal(0)
        for s in self.segs:
            tot = tot + s.length()
        return SV(z3.simplify(tot), "int")

    def __repr__(self):
        return "SList<" + " ++ ".join(getattr(s, "name", None) or f"{s.kind}({getattr(getattr(s, 'src', None), 'name', '')})" for s in self.segs) + ">"

    # ---- queries that need the solver
    def _prefix(self, j):
        tot = z3.IntVal(0)
        for s in self.segs[:j]:
            tot = tot + s.length()
        return tot

    def getitem(self, interp, idx):
        if isinstance(idx, slice):
            return self._slice(interp, idx)
        if isinstance(idx, PermIndex):
            if len(self.segs) == 1 and isinstance(self.segs[0], Base):
                same = self.segs[0] is idx.perm.src or interp.ctx.valid(self.segs[0].length() == idx.perm.n.z)[0] == "proved"
                if same:
                    return GatherElem(self.segs[0], idx.perm, idx.k, self.segs[0].at(interp, idx.sv.z))
            idx = idx.sv
        if isinstance(idx, int):
            idx = SV(z3.IntVal(idx), "int")
        if not (isinstance(idx, SV) and idx.kind == "int"):
            raise Unsupported("index into a symbolic-length list")
        ctx = interp.ctx
        for j, seg in enumerate(self.segs):
            lo = self._prefix(j)
            hi = lo + seg.length()
            st, _ = ctx.valid(z3.And(idx.z >= lo, idx.z < hi))
            if st == "proved":
                k = z3.simplify(idx.z - lo)
                if isinstance(seg, Host):
                    kk = z3.simplify(k)
                    if z3.is_int_value(kk):
                        return seg.items[kk.as_long()]
                    raise Unsupported("symbolic index into a concrete segment")
                return seg.at(interp, k)
        raise Unsupported(f"cannot place index {idx.z} in {self!r}")

    def _slice(self, interp, sl):
        if sl.step is not None:
            raise Unsupported("slice step on a symbolic-length list")
        segs = self.segs
        ctx = interp.ctx

        def boundary(v, default):
            if v is None:
                return default
            vz = models.to_z3(v, "int") if not isinstance(v, PermIndex) else v.sv.z
            for j in range(len(segs) + 1):
                st, _ = ctx.valid(vz == self._prefix(j))
                if st == "proved":
                    return j
            raise Unsupported(f"slice bound {vz} is not provably a segment boundary of {self!r}")

        a = boundary(sl.start, 0)
        b = boundary(sl.stop, len(segs))
        return SList(segs[a:b])

    def sum(self, interp, start=0):
        raise Unsupported("sum of a symbolic-length list of scalars")

    def contains(self, interp, x):
        raise Unsupported("'in' on a symbolic-length list")

    def concrete_items(self, interp):
        if all(isinstance(s, Host) for s in self.segs):
            return [x for s in self.segs for x in s.items]
        raise Unsupported("iteration over a symbolic-length list")


class GatherElem:
    """X[sigma[k]] as produced inside a comprehension over the argsort result."""

    def __init__(self, src, perm, k, value):
        self.src = src
        self.perm = perm
        self.k = k
        self.value = value


class MapSList(models.SList):
    """[g(x) for x in L] where g(x) is an integer attribute of the element (only sum() consumes it)."""

    def __init__(self, src: SList, attr):
        self.src = src
        self.attr = attr

    @property
    def length(self):
        return self.src.length

    def sum(self, interp, start=0):
        tot = models.to_z3(start, "int")
        for seg in self.src.segs:
            if isinstance(seg, Base):
                tot = tot + seg.total(self.attr)
            elif isinstance(seg, Gather):
                # L-PERMSUM: sigma is a permutation of range(len src)
                tot = tot + seg.src.total(self.attr)
                interp.ctx.ghost.setdefault("list_lemmas", set()).add("sum(g o gather(X, perm)) = sum(g o X)")
            elif isinstance(seg, Host):
                for it in seg.items:
                    tot = tot + models.to_z3(models._len(interp, it), "int")
            else:
                raise Unsupported("sum over this segment kind")
        interp.ctx.ghost.setdefault("list_lemmas", set()).add("sum over concat = sum of sums")
        return SV(z3.simplify(tot), "int")


# ------------------------------------------------------------------------------- operations used by the interpreter
def as_slist(v):
    if isinstance(v, SList):
        return v
    if isinstance(v, list | tuple):
        return SList([Host(v)])
    raise Unsupported(f"cannot view {type(v).__name__} as a symbolic-length list")


def binop(interp, op, a, b):
    if op is ast.Add:
        return SList(as_slist(a).segs + as_slist(b).segs)
    raise Unsupported("operation on a symbolic-length list")


def argsort(interp, xs):
    if isinstance(xs, SList) and len(xs.segs) == 1 and isinstance(xs.segs[0], Base):
        interp.ctx.ghost.setdefault("externals", set()).add("np.argsort: returns a permutation of range(n) that sorts its argument")
        return SList([Perm(interp, xs.segs[0])])
    raise Unsupported("argsort of a composite symbolic list")


def comprehension(interp, node, env, it):
    """[elt for x in L] for the two shapes used on symbolic lists: gathers through an argsort result, and integer
    attributes of the elements."""
    from .interp import Env

    if len(node.generators) != 1 or node.generators[0].ifs:
        raise Unsupported("comprehension shape over a symbolic-length list")
    g = node.generators[0]
    if not isinstance(g.target, ast.Name):
        raise Unsupported("comprehension target over a symbolic-length list")
    if len(it.segs) == 1 and isinstance(it.segs[0], Perm):
        perm = it.segs[0]
        k = z3.Int(fresh_name("k"))
        e2 = Env(parent=env)
        e2.set(g.target.id, perm.at(interp, k))
        v = interp.eval(node.elt, e2)
        if isinstance(v, GatherElem) and v.perm is perm and v.k is k:
            return SList([Gather(v.src, perm)])
        raise Unsupported("comprehension over an argsort result that is not a gather X[i]")
    # per-element integer attribute: len(d)
    if isinstance(node.elt, ast.Call) and isinstance(node.elt.func, ast.Name) and node.elt.func.id == "len" and len(node.elt.args) == 1 \
            and isinstance(node.elt.args[0], ast.Name) and node.elt.args[0].id == g.target.id:
        return MapSList(it, "len")
    raise Unsupported("comprehension body over a symbolic-length list")


def provenance(lst: SList, j):
    """(kind, src base, perm) of segment j."""
    s = lst.segs[j]
    if isinstance(s, Gather):
        return ("gather", s.src, s.perm)
    if isinstance(s, Base):
        return ("base", s, None)
    return (s.kind, None, None)
