"""Second solver: cvc5 on the SMT-LIB dump of a z3 query (takes z3's unknowns)."""
import os
import subprocess
import tempfile

import z3

CVC5 = "/usr/bin/cvc5"


def cvc5_check(assertions, timeout_s=20, strings=True):
    s = z3.Solver()
    for a in assertions:
        s.add(a)
    txt = s.to_smt2()
    with tempfile.NamedTemporaryFile("w", suffix=".smt2", delete=False, dir=os.environ.get("PYVC_TMP", None)) as f:
        f.write("(set-logic ALL)\n" + txt)
        name = f.name
    try:
        cmd = [CVC5, f"--tlimit={timeout_s * 1000}"]
        if strings:
            cmd.append("--strings-exp")
        r = subprocess.run(cmd + [name], capture_output=True, text=True, timeout=timeout_s + 5)
        out = r.stdout.strip().splitlines()
        return out[0] if out else "unknown"
    except Exception:  # noqa: BLE001
        return "unknown"
    finally:
        os.unlink(name)
