"""Value domain of the E1 symbolic interpreter.

Concrete Python objects are used as they are.  Symbolic values:

  SV     a z3 term of kind int / real / bool / str, or kind 'ref': an Int index into a
         finite list of concrete Python objects (enum members, classes, small constants)
  SObj   an instance of a *real* class (imported from /repo) whose fields may be symbolic
  SLazy  an instance of an unknown subclass of a base class, resolved lazily by decisions
         ("lazy initialisation"): isinstance tests refine the candidate set, field access
         fixes the class
"""

from __future__ import annotations

import fractions
import itertools

import z3


class EngineError(Exception):
    """The interpreter met something it does not model: the obligation is UNDECIDED."""


class Unsupported(EngineError):
    pass


_counter = itertools.count()


def fresh_name(prefix):
    return f"{prefix}!{next(_counter)}"


class SV:
    __slots__ = ("z", "kind", "choices", "havoc")

    def __init__(self, z, kind, choices=None, havoc=False):
        self.z = z
        self.kind = kind
        self.choices = choices
        self.havoc = havoc

    def __bool__(self):
        raise EngineError("symbolic value leaked into native code (bool)")

    def __eq__(self, other):
        raise EngineError("symbolic value leaked into native code (==)")

    def __hash__(self):
        raise EngineError("symbolic value leaked into native code (hash)")

    def __index__(self):
        raise EngineError("symbolic value leaked into native code (index)")

    def __repr__(self):
        return f"SV<{self.kind}:{self.z}>"


def mk_int(name=None):
    return SV(z3.Int(name or fresh_name("i")), "int")


def mk_real(name=None):
    return SV(z3.Real(name or fresh_name("r")), "real")


def mk_bool(name=None):
    return SV(z3.Bool(name or fresh_name("b")), "bool")


def mk_str(name=None):
    return SV(z3.String(name or fresh_name("s")), "str")


class SObj:
    """Symbolic instance of a real class."""

    def __init__(self, cls, fields=None, origin=None):
        object.__setattr__(self, "cls", cls)
        object.__setattr__(self, "fields", dict(fields or {}))
        object.__setattr__(self, "origin", origin)
        object.__setattr__(self, "uid", next(_counter))

    def __repr__(self):
        return f"SObj<{self.cls.__name__} {self.fields}>"

    def __bool__(self):
        raise EngineError("SObj leaked into native code (bool)")

    def __eq__(self, other):
        return self is other

    def __hash__(self):
        return id(self)


class SLazy:
    """Object of an unknown concrete class among `cands` (real classes)."""

    def __init__(self, base, cands, name, shape=None):
        self.base = base
        self.cands = list(cands)
        self.name = name
        self.resolved = None  # SObj once the class is fixed
        self.prefields = {}
        self.evvars = {}  # spec-function name -> z3 var standing for its value on this object
        self.shape = shape  # optional per-instance field factory override
        self.uid = next(_counter)

    def __repr__(self):
        if self.resolved is not None:
            return f"Lazy->{self.resolved!r}"
        return f"SLazy<{self.name}:{[c.__name__ for c in self.cands]}>"

    def __bool__(self):
        raise EngineError("SLazy leaked into native code (bool)")

    def __eq__(self, other):
        return self is other

    def __hash__(self):
        return id(self)


class Opaque:
    """An object nothing is known about (result of an unmodelled call)."""

    def __init__(self, origin, typ=None):
        self.origin = origin
        self.typ = typ
        self.uid = next(_counter)

    def __repr__(self):
        return f"Opaque<{self.origin}>"


class SymbolicMarker:
    """Base class of helper objects (e.g. the symbolic environment) that force interpretation of a call."""


def is_symbolic(v, _depth=0):
    if isinstance(v, SV | SObj | SLazy | Opaque | SymbolicMarker):
        return True
    if _depth > 6:
        return False
    if isinstance(v, list | tuple | set | frozenset):
        return any(is_symbolic(x, _depth + 1) for x in v)
    if isinstance(v, dict):
        return any(is_symbolic(x, _depth + 1) for x in v.values()) or any(
            is_symbolic(k, _depth + 1) for k in v.keys()
        )
    import types as _types

    if isinstance(v, _types.SimpleNamespace):
        return any(is_symbolic(x, _depth + 1) for x in vars(v).values())
    if isinstance(v, tuple) and hasattr(v, "_fields"):
        return any(is_symbolic(x, _depth + 1) for x in v)
    return False


def to_z3(v, want=None):
    """Coerce a concrete python scalar or SV to a z3 term."""
    if isinstance(v, SV):
        z = v.z
        if want == "real" and v.kind == "int":
            return z3.ToReal(z)
        if want == "real" and v.kind == "bool":
            return z3.If(z, z3.RealVal(1), z3.RealVal(0))
        if want == "int" and v.kind == "bool":
            return z3.If(z, z3.IntVal(1), z3.IntVal(0))
        return z
    if isinstance(v, bool):
        if want == "int":
            return z3.IntVal(int(v))
        if want == "real":
            return z3.RealVal(int(v))
        return z3.BoolVal(v)
    import numpy as np

    if isinstance(v, int | np.integer):
        if want == "real":
            return z3.RealVal(int(v))
        return z3.IntVal(int(v))
    if isinstance(v, float | np.floating):
        fr = fractions.Fraction(float(v))
        return z3.RealVal(f"{fr.numerator}/{fr.denominator}")
    if isinstance(v, fractions.Fraction):
        return z3.RealVal(f"{v.numerator}/{v.denominator}")
    if isinstance(v, str):
        return z3.StringVal(v)
    raise Unsupported(f"cannot coerce {type(v).__name__} to z3")


def kind_of(v):
    import numpy as np

    if isinstance(v, SV):
        return v.kind
    if isinstance(v, bool | np.bool_):
        return "bool"
    if isinstance(v, int | np.integer):
        return "int"
    if isinstance(v, float | np.floating | fractions.Fraction):
        return "real"
    if isinstance(v, str):
        return "str"
    return None
