"""E1: a symbolic interpreter over Python ASTs re-read from /repo on every run.

Concrete sub-computations are executed by CPython itself (the real objects, the real
callees); anything touching a symbolic value is interpreted here.  Branches on symbolic
conditions are decisions of the path context (ctx.py); all paths are enumerated.
"""

from __future__ import annotations

import ast
import builtins
import inspect
import operator
import types
import typing

import z3

from . import models
from .ctx import PathAbort
from .values import (
    SV,
    EngineError,
    Opaque,
    SLazy,
    SObj,
    Unsupported,
    fresh_name,
    is_symbolic,
    kind_of,
    to_z3,
)


class PyRaise(Exception):
    """An exception raised by the interpreted program."""

    def __init__(self, exc, cls=None):
        self.exc = exc
        self.cls = cls or (type(exc) if not isinstance(exc, SObj) else exc.cls)


class _Return(Exception):
    def __init__(self, v):
        self.v = v


class _Break(Exception):
    pass


class _Continue(Exception):
    pass


class Env:
    def __init__(self, parent=None, globs=None):
        self.vars = {}
        self.parent = parent
        self.globs = globs if globs is not None else (parent.globs if parent else {})
        self.global_names = set()

    def lookup(self, name):
        e = self
        while e is not None:
            if name in e.vars:
                return e.vars[name]
            e = e.parent
        if name in GLOBAL_OVERRIDES:
            return GLOBAL_OVERRIDES[name]
        if name in self.globs:
            return self.globs[name]
        if hasattr(builtins, name):
            return getattr(builtins, name)
        raise PyRaise(NameError(name))

    def set(self, name, v):
        self.vars[name] = v


GLOBAL_OVERRIDES: dict = {}


class Closure:
    def __init__(self, node, env, name, qual=None, is_lambda=False):
        self.node = node
        self.env = env
        self.name = name
        self.qual = qual or name
        self.is_lambda = is_lambda
        self.defaults = None  # evaluated lazily at def time

    def __repr__(self):
        return f"Closure<{self.qual}>"


class BM:
    """Bound method on a symbolic receiver."""

    def __init__(self, obj, func):
        self.obj = obj
        self.func = func

    def __repr__(self):
        return f"BM<{self.func}>"


# -------------------------------------------------------------------------------------
# source access: always from the file on disk (or an in-memory override for seeded mutants)
# -------------------------------------------------------------------------------------
_file_cache: dict[str, tuple[str, ast.Module]] = {}
source_overrides: dict[str, str] = {}


def file_ast(path):
    if path in source_overrides:
        txt = source_overrides[path]
        key = ("ovr", path, hash(txt))
        if key not in _file_cache:
            _file_cache[key] = (txt, ast.parse(txt))
        return _file_cache[key]
    if path not in _file_cache:
        with open(path) as f:
            txt = f.read()
        _file_cache[path] = (txt, ast.parse(txt))
    return _file_cache[path]


def clear_source_cache():
    _file_cache.clear()


def find_def(path, qualname):
    """Locate a FunctionDef by dotted qualname ('Cls.meth' or 'func' or 'outer.<locals>.inner')."""
    _, tree = file_ast(path)
    parts = [p for p in qualname.split(".") if p != "<locals>"]
    node = tree
    for p in parts:
        found = None
        for ch in ast.walk(node) if node is tree and False else _children_defs(node):
            if ch.name == p:
                found = ch
                break
        if found is None:
            return None
        node = found
    return node


def _children_defs(node):
    out = []
    for st in getattr(node, "body", []):
        if isinstance(st, ast.FunctionDef | ast.ClassDef | ast.AsyncFunctionDef):
            out.append(st)
        elif isinstance(st, ast.If | ast.Try | ast.With | ast.For | ast.While):
            out.extend(_children_defs(st))
            for h in getattr(st, "handlers", []):
                out.extend(_children_defs(h))
            if getattr(st, "orelse", None):
                out.extend(_children_defs(types.SimpleNamespace(body=st.orelse)))
    return out


def func_node(fn):
    """AST node (FunctionDef or Lambda) of a real python function, from the file on disk."""
    code = fn.__code__
    path = code.co_filename
    if fn.__name__ == "<lambda>":
        _, tree = file_ast(path)
        cands = [
            n for n in ast.walk(tree) if isinstance(n, ast.Lambda) and n.lineno == code.co_firstlineno
        ]
        if len(cands) != 1:
            nargs = code.co_argcount
            cands = [c for c in cands if len(c.args.args) == nargs]
        if len(cands) < 1:
            raise EngineError(f"anchor missing: lambda at {path}:{code.co_firstlineno}")
        return cands[0]
    node = find_def(path, fn.__qualname__)
    if node is not None:
        lines = [node.lineno] + [d.lineno for d in node.decorator_list]
        if code.co_firstlineno not in lines or path in source_overrides:
            node = None  # several defs may share the name (singledispatch '_'): identify by line / header
    if node is None:
        node = _def_by_line(path, fn)
        if node is None:
            raise EngineError(f"anchor missing: {fn.__qualname__} in {path}")
    return node


def _header(n):
    return (n.name, ast.unparse(n.args), tuple(ast.unparse(d) for d in n.decorator_list))


def _def_by_line(path, fn):
    """The def at the function's first line in the file on disk; under an in-memory override, the def with
    the same name, signature and decorators."""
    code = fn.__code__
    with open(path) as f:
        disk = ast.parse(f.read())
    orig = None
    for n in ast.walk(disk):
        if isinstance(n, ast.FunctionDef) and n.name == fn.__name__:
            if code.co_firstlineno in [n.lineno] + [d.lineno for d in n.decorator_list]:
                orig = n
    if orig is None:
        return None
    if path not in source_overrides:
        _, tree = file_ast(path)
        for n in ast.walk(tree):
            if isinstance(n, ast.FunctionDef) and n.lineno == orig.lineno and n.name == orig.name:
                return n
        return None
    _, tree = file_ast(path)
    cands = [n for n in ast.walk(tree) if isinstance(n, ast.FunctionDef) and _header(n) == _header(orig)]
    return cands[0] if len(cands) == 1 else None


import os as _os

_HERE = _os.path.dirname(_os.path.dirname(_os.path.abspath(__file__)))
INTERPRETABLE_PREFIXES = [_os.path.join(_os.environ.get("FFCX_REPO", "/repo"), "ffcx") + "/", _os.path.join(_HERE, "contracts") + "/"]


def interpretable(fn):
    if not isinstance(fn, types.FunctionType):
        return False
    f = fn.__code__.co_filename
    return any(f.startswith(p) for p in INTERPRETABLE_PREFIXES)


_BINOPS = {
    ast.Add: ("__add__", "__radd__", operator.add),
    ast.Sub: ("__sub__", "__rsub__", operator.sub),
    ast.Mult: ("__mul__", "__rmul__", operator.mul),
    ast.Div: ("__truediv__", "__rtruediv__", operator.truediv),
    ast.FloorDiv: ("__floordiv__", "__rfloordiv__", operator.floordiv),
    ast.Mod: ("__mod__", "__rmod__", operator.mod),
    ast.Pow: ("__pow__", "__rpow__", operator.pow),
    ast.BitOr: ("__or__", "__ror__", operator.or_),
    ast.BitAnd: ("__and__", "__rand__", operator.and_),
    ast.BitXor: ("__xor__", "__rxor__", operator.xor),
    ast.LShift: ("__lshift__", "__rlshift__", operator.lshift),
    ast.RShift: ("__rshift__", "__rrshift__", operator.rshift),
    ast.MatMult: ("__matmul__", "__rmatmul__", operator.matmul),
}
_CMPOPS = {
    ast.Eq: ("__eq__", operator.eq),
    ast.NotEq: ("__ne__", operator.ne),
    ast.Lt: ("__lt__", operator.lt),
    ast.LtE: ("__le__", operator.le),
    ast.Gt: ("__gt__", operator.gt),
    ast.GtE: ("__ge__", operator.ge),
}


def _isobj(v):
    return isinstance(v, SObj | SLazy)


class Interp:
    def __init__(self, ctx, registry=None, max_steps=400000):
        self.ctx = ctx
        self.registry = registry  # contracts: modular calls, shapes, effects
        self.steps = 0
        self.max_steps = max_steps
        self.depth = 0
        self.inline_only = set()  # function objects that must be inlined even if they have a contract
        self.effects = None  # effect-trace mode (C14/C15): an pyvc.effects.EffectModel

    # ---------------------------------------------------------------- objects
    def resolve(self, v):
        """Follow resolved lazies."""
        while isinstance(v, SLazy) and v.resolved is not None:
            v = v.resolved
        return v

    def force(self, lz: SLazy):
        """Fix the class of a lazy object (k-way decision)."""
        lz = self.resolve(lz)
        if not isinstance(lz, SLazy):
            return lz
        if not lz.cands:
            raise PathAbort()
        k = self.ctx.decide(len(lz.cands), f"class of {lz.name}")
        cls = lz.cands[k]
        lz.cands = [cls]
        return self._materialise(lz)

    def _materialise(self, lz):
        cls = lz.cands[0]
        so = SObj(cls, origin=lz)
        lz.resolved = so
        for name, pv in lz.prefields.items():
            if self._is_instance_field(cls, name):
                actual = self.field(so, name)
                if isinstance(actual, SV) and actual.kind == "ref" and isinstance(pv, SV):
                    so.fields[name] = pv  # adopt the earlier variable
                else:
                    self.ctx.assume(models.as_bool_sv(self, self.compare(ast.Eq(), pv, actual)))
            elif hasattr(cls, name):
                self.ctx.assume(models.as_bool_sv(self, self.compare(ast.Eq(), pv, getattr(cls, name))))
        # tie spec-function variables to the now known structure
        for spec, (var, args) in list(lz.evvars.items()):
            val = self.call(spec, [so, *args], {})
            kind = {z3.RealSort(): "real", z3.IntSort(): "int", z3.BoolSort(): "bool"}[var.sort()]
            if kind == "bool":
                val = models.as_bool_sv(self, val)
            self.ctx.assume(models.as_bool_sv(self, self.eq(SV(var, kind), val)))
        return so

    def refine(self, lz, classes):
        """isinstance(lazy, classes) -> bool, refining the candidate set."""
        lz = self.resolve(lz)
        if isinstance(lz, SObj):
            return issubclass(lz.cls, classes)
        yes = [c for c in lz.cands if issubclass(c, classes)]
        no = [c for c in lz.cands if not issubclass(c, classes)]
        if yes and no:
            c = self.ctx.decide(2, f"isinstance({lz.name},{getattr(classes, '__name__', classes)})")
            lz.cands = yes if c == 0 else no
            r = c == 0
        else:
            r = bool(yes)
        if len(lz.cands) == 1:
            self._materialise(lz)
        return r

    def field(self, so: SObj, name):
        if name in so.fields:
            return so.fields[name]
        shapes = self.registry.shapes if self.registry else {}
        for klass in so.cls.__mro__:
            sh = shapes.get(klass)
            if sh and name in sh:
                v = sh[name](self, f"{_oname(so)}.{name}")
                so.fields[name] = v
                return v
        return _MISSING

    def getattr(self, obj, name):
        obj = self.resolve(obj)
        if isinstance(obj, SLazy):
            common = self.registry.common_fields if self.registry else {}
            if name in common:
                if name not in obj.prefields:
                    obj.prefields[name] = common[name](self, f"{obj.name}.{name}")
                return obj.prefields[name]
            # class-level attribute identical across candidates?
            vals = []
            for c in obj.cands:
                if self._is_instance_field(c, name):
                    vals = None
                    break
                if not hasattr(c, name):
                    vals = None
                    break
                vals.append(inspect.getattr_static(c, name))
            if vals and all(v is vals[0] or (_simple(v) and v == vals[0]) for v in vals):
                return self._class_attr(obj, obj.cands[0], name)
            if vals and name not in ("__class__",):
                # class-level attribute with different values: split the candidates by value (not by class)
                groups = []
                for c, v in zip(obj.cands, vals):
                    for g in groups:
                        if _simple(v) and _simple(g[0]) and type(v) is type(g[0]) and v == g[0]:
                            g[1].append(c)
                            break
                    else:
                        groups.append((v, [c]))
                if len(groups) < len(obj.cands):
                    k = self.ctx.decide(len(groups), f"{name} of {obj.name}")
                    obj.cands = groups[k][1]
                    if len(obj.cands) == 1:
                        return self.getattr(self._materialise(obj), name)
                    return self._class_attr(obj, obj.cands[0], name)
            obj = self.force(obj)
        if isinstance(obj, SObj):
            v = self.field(obj, name)
            if v is not _MISSING:
                return v
            if hasattr(obj.cls, name):
                return self._class_attr(obj, obj.cls, name)
            raise PyRaise(AttributeError(f"{obj.cls.__name__}.{name}"))
        if isinstance(obj, SV):
            return models.sv_attr(self, obj, name)
        if isinstance(obj, Opaque):
            return Opaque(f"{obj.origin}.{name}")
        if isinstance(obj, models.SymEnv):
            return models.BuiltinModel(getattr(obj, name))
        try:
            return getattr(obj, name)
        except AttributeError as e:
            raise PyRaise(e)

    def _is_instance_field(self, cls, name):
        shapes = self.registry.shapes if self.registry else {}
        for klass in cls.__mro__:
            sh = shapes.get(klass)
            if sh and name in sh:
                return True
        return False

    def _class_attr(self, obj, cls, name):
        raw = inspect.getattr_static(cls, name)
        if isinstance(raw, types.FunctionType):
            return BM(obj, raw)
        if isinstance(raw, property):
            return self.call(raw.fget, [obj], {})
        if isinstance(raw, staticmethod):
            return raw.__func__
        if isinstance(raw, classmethod):
            return BM(cls, raw.__func__)
        return raw

    def setattr(self, obj, name, v):
        obj = self.resolve(obj)
        if isinstance(obj, SLazy):
            obj = self.force(obj)
        if isinstance(obj, SObj):
            obj.fields[name] = v
            return
        if is_symbolic(v):
            raise Unsupported(f"assigning a symbolic value to attribute {name} of a native {type(obj).__name__}")
        try:
            setattr(obj, name, v)
        except Exception as e:  # noqa: BLE001
            raise PyRaise(e)

    def isinstance(self, v, classes):
        v = self.resolve(v)
        classes = _norm_classes(classes)
        if isinstance(v, SLazy):
            return self.refine(v, classes)
        if isinstance(v, SObj):
            return issubclass(v.cls, classes)
        if isinstance(v, SV):
            return models.sv_isinstance(v, classes)
        if isinstance(v, Opaque):
            if self.effects is not None:
                return self.ctx.decide(2, f"isinstance({v.origin})") == 0
            raise Unsupported(f"isinstance on opaque value {v.origin}")
        return isinstance(v, classes)

    # ---------------------------------------------------------------- scalars
    def truth(self, v, label=""):
        v = self.resolve(v)
        if isinstance(v, SV):
            return self.ctx.branch(v, label)
        if isinstance(v, SObj | SLazy):
            cls = v.cls if isinstance(v, SObj) else v.base
            if hasattr(cls, "__bool__") or hasattr(cls, "__len__"):
                raise Unsupported("truthiness of symbolic object with __bool__/__len__")
            return True
        if isinstance(v, Opaque):
            b = SV(z3.Bool(fresh_name("havoc_truth")), "bool", havoc=True)
            self.ctx.notes.append(f"havoc truth of {v.origin}")
            return self.ctx.branch(b, label)
        if isinstance(v, models.SList):
            return self.ctx.branch(SV(v.length.z > 0, "bool"), label)
        return bool(v)

    def eq(self, a, b):
        """Structural/scalar equality as a python bool or SV bool."""
        return self.compare(ast.Eq(), a, b)

    def binop(self, op, a, b):
        a = self.resolve(a)
        b = self.resolve(b)
        fwd, rev, pyop = _BINOPS[type(op)]
        if not is_symbolic(a) and not is_symbolic(b):
            # the concrete receivers may still be repo objects whose dunder is under contract
            r = self._contract_dunder(a, b, fwd, rev)
            if r is not _MISSING:
                return r
            try:
                return pyop(a, b)
            except Exception as e:  # noqa: BLE001
                raise PyRaise(e)
        if _isobj(a) or _isobj(b) or _has_repo_dunder(a, fwd) or _has_repo_dunder(b, rev):
            return self._dunder_binop(a, b, fwd, rev, pyop)
        if isinstance(a, SV) or isinstance(b, SV):
            return models.sv_binop(self, type(op), a, b)
        if isinstance(a, models.SList) or isinstance(b, models.SList):
            return models.slist_binop(self, type(op), a, b)
        if isinstance(a, list | tuple) and isinstance(b, list | tuple) and isinstance(op, ast.Add):
            return a + b
        if isinstance(a, list | tuple) and isinstance(b, int) and isinstance(op, ast.Mult):
            return a * b
        if isinstance(a, str) and isinstance(op, ast.Mod):
            return models.str_format_percent(self, a, b)
        if isinstance(a, Opaque) or isinstance(b, Opaque):
            if self.effects is not None and isinstance(op, ast.Add):
                from .effects import descr, mk_str

                if getattr(a, "typ", None) == "str" or getattr(b, "typ", None) == "str" or isinstance(a, str) or isinstance(b, str):
                    return mk_str(descr(a) + descr(b))
            self.ctx.notes.append("havoc binop on opaque")
            return Opaque(f"binop({a!r},{b!r})")
        raise Unsupported(f"binop {type(op).__name__} on {type(a).__name__}, {type(b).__name__}")

    def _contract_dunder(self, a, b, fwd, rev):
        return _MISSING

    def _dunder_binop(self, a, b, fwd, rev, pyop):
        def cls_of(x):
            x = self.resolve(x)
            if isinstance(x, SObj):
                return x.cls
            if isinstance(x, SLazy):
                return x.base
            return type(x)

        ca, cb = cls_of(a), cls_of(b)
        # python: if type(b) is a proper subclass of type(a) and overrides rev, try rev first (ignored:
        # LNodes operands never rely on it)
        m = _lookup(ca, fwd)
        if m is not None and isinstance(m, types.FunctionType):
            r = self.call(m, [a, b], {})
            if r is not NotImplemented:
                return r
        m = _lookup(cb, rev)
        if m is not None and isinstance(m, types.FunctionType):
            r = self.call(m, [b, a], {})
            if r is not NotImplemented:
                return r
        raise PyRaise(TypeError(f"unsupported operand types for {fwd}: {ca.__name__}, {cb.__name__}"))

    def unary(self, op, a):
        a = self.resolve(a)
        if isinstance(op, ast.Not):
            return not self.truth(a, "not")
        if not is_symbolic(a):
            f = {ast.USub: operator.neg, ast.UAdd: operator.pos, ast.Invert: operator.invert}[type(op)]
            try:
                return f(a)
            except Exception as e:  # noqa: BLE001
                raise PyRaise(e)
        if isinstance(a, SV):
            if isinstance(op, ast.USub):
                return SV(-to_z3(a, None if a.kind != "bool" else "int"), a.kind if a.kind != "bool" else "int")
            if isinstance(op, ast.UAdd):
                return a
        if _isobj(a):
            name = {ast.USub: "__neg__", ast.UAdd: "__pos__", ast.Invert: "__invert__"}[type(op)]
            cls = a.cls if isinstance(a, SObj) else a.base
            m = _lookup(cls, name)
            if m is None:
                raise PyRaise(TypeError(f"bad operand type for unary {name}"))
            return self.call(m, [a], {})
        raise Unsupported(f"unary {type(op).__name__} on {a!r}")

    def compare(self, op, a, b):
        a = self.resolve(a)
        b = self.resolve(b)
        t = type(op)
        if t in (ast.Is, ast.IsNot):
            r = self._identical(a, b)
            if isinstance(r, SV):
                return r if t is ast.Is else SV(z3.Not(r.z), "bool")
            return r if t is ast.Is else not r
        if t in (ast.In, ast.NotIn):
            r = models.contains(self, b, a)
            if t is ast.In:
                return r
            return SV(z3.Not(r.z), "bool") if isinstance(r, SV) else (not r)
        name, pyop = _CMPOPS[t]
        if not is_symbolic(a) and not is_symbolic(b):
            try:
                return pyop(a, b)
            except Exception as e:  # noqa: BLE001
                raise PyRaise(e)
        if isinstance(a, SV) and a.kind == "ref" or isinstance(b, SV) and b.kind == "ref":
            return models.ref_compare(self, t, a, b)
        if _isobj(a) or _isobj(b):
            return self._obj_compare(t, name, a, b)
        if isinstance(a, SV) or isinstance(b, SV):
            if (a is None or b is None) and t in (ast.Eq, ast.NotEq):
                return t is ast.NotEq
            ka, kb = kind_of(a), kind_of(b)
            if ka is None or kb is None:
                # scalar vs. non-scalar object: never equal
                if t is ast.Eq:
                    return False
                if t is ast.NotEq:
                    return True
                raise PyRaise(TypeError("unorderable"))
            return models.sv_compare(self, t, a, b)
        if isinstance(a, list | tuple) and isinstance(b, list | tuple) and t in (ast.Eq, ast.NotEq):
            if type(a) is not type(b) or len(a) != len(b):
                return t is ast.NotEq
            acc = True
            for x, y in zip(a, b):
                if self.resolve(x) is self.resolve(y):
                    continue  # CPython's container comparison short-cuts on identity
                e = self.compare(ast.Eq(), x, y)
                acc = models.and_(acc, e)
            if t is ast.NotEq:
                return models.not_(acc)
            return acc
        if isinstance(a, Opaque) or isinstance(b, Opaque):
            self.ctx.notes.append("havoc compare on opaque")
            return SV(z3.Bool(fresh_name("havoc_cmp")), "bool", havoc=True)
        raise Unsupported(f"compare {t.__name__} on {type(a).__name__}, {type(b).__name__}")

    def _identical(self, a, b):
        if isinstance(a, SV) and a.kind == "ref" or isinstance(b, SV) and b.kind == "ref":
            return models.ref_compare(self, ast.Eq, a, b)
        if isinstance(a, SV) or isinstance(b, SV):
            if a is None or b is None:
                return False
            if (isinstance(a, SV) and a.kind == "bool" and isinstance(b, bool | SV)) or (
                isinstance(b, SV) and b.kind == "bool" and isinstance(a, bool | SV)
            ):
                return models.sv_compare(self, ast.Eq, a, b)
            raise Unsupported("identity of symbolic scalars")
        return a is b

    def _obj_compare(self, t, name, a, b):
        def cls_of(x):
            if isinstance(x, SObj):
                return x.cls
            if isinstance(x, SLazy):
                return x.base
            return type(x)

        for x, y, nm in ((a, b, name), (b, a, _REFLECT[name])):
            if not _isobj(x) and not _has_repo_dunder(x, nm):
                continue
            c = cls_of(x)
            if isinstance(x, SLazy):
                # __eq__ may be overridden per subclass: need the class
                if len({_lookup(k, nm) for k in x.cands}) > 1:
                    x = self.force(x)
                    c = x.cls
                else:
                    c = x.cands[0] if x.cands else c
            m = _lookup(c, nm)
            if m is not None and isinstance(m, types.FunctionType):
                r = self.call(m, [x, y], {})
                if r is not NotImplemented:
                    return r
        if t is ast.Eq:
            return a is b
        if t is ast.NotEq:
            return a is not b
        raise PyRaise(TypeError("unorderable"))

    # ---------------------------------------------------------------- calls
    def call(self, fn, args, kwargs):
        self.depth += 1
        if self.depth > 120:
            raise EngineError("interpreter recursion too deep")
        try:
            return self._call(fn, list(args), dict(kwargs))
        finally:
            self.depth -= 1

    def _call(self, fn, args, kwargs):
        fn = self.resolve(fn)
        if isinstance(fn, Closure):
            return self.run_closure(fn, args, kwargs)
        if isinstance(fn, BM):
            return self.call(fn.func, [fn.obj, *args], kwargs)
        if isinstance(fn, models.BuiltinModel):
            return fn.f(*args, **kwargs)
        if isinstance(fn, Opaque):
            if self.effects is not None:
                return self.effects.opaque_call(self, fn, args, kwargs)
            self.ctx.notes.append(f"havoc call of {fn.origin}")
            return Opaque(f"{fn.origin}()")
        reg = self.registry
        if self.effects is not None:
            r = self.effects.real_call(self, fn, args, kwargs)
            if r is not NotImplemented:
                return r
        # effects / externals declared by the contract set (C14/C15)
        if reg is not None:
            h = reg.lookup_effect(fn)
            if h is not None:
                return h(self, fn, args, kwargs)
        # bound native method on a concrete receiver
        if isinstance(fn, types.MethodType):
            recv, func = fn.__self__, fn.__func__
            if interpretable(func) and (is_symbolic(args) or is_symbolic(kwargs) or self._wants_interp(func)):
                return self.call(func, [recv, *args], kwargs)
        symbolic = is_symbolic(args) or is_symbolic(kwargs)
        if isinstance(fn, types.FunctionType) and reg is not None:
            c = reg.lookup_modular(fn)
            if c is not None and fn not in self.inline_only:
                return reg.apply_contract(self, c, fn, args, kwargs)
        m = models.lookup(fn)
        if m is not None and (symbolic or m.always):
            return m.f(self, *args, **kwargs)
        if (symbolic or (isinstance(fn, types.BuiltinMethodType) and is_symbolic(getattr(fn, "__self__", None)))) and isinstance(
            fn, types.BuiltinMethodType
        ) and isinstance(getattr(fn, "__self__", None), list | tuple) and fn.__name__ in models.LIST_METHOD_MODELS:
            return models.LIST_METHOD_MODELS[fn.__name__](self, fn.__self__, *args, **kwargs)
        if symbolic and isinstance(fn, types.BuiltinMethodType) and isinstance(getattr(fn, "__self__", None), str):
            return models._str_method(self, fn.__self__, fn.__name__, *args)
        if symbolic and models.shallow_safe(fn, args, kwargs):
            try:
                return fn(*args, **kwargs)
            except (EngineError, PathAbort):
                raise
            except Exception as e:  # noqa: BLE001
                raise PyRaise(e)
        if isinstance(fn, type) and (symbolic or self._wants_interp_cls(fn)):
            return self.construct(fn, args, kwargs)
        if isinstance(fn, types.FunctionType) and interpretable(fn) and (symbolic or self._wants_interp(fn)):
            return self.run_function(fn, args, kwargs)
        if hasattr(fn, "registry") and hasattr(fn, "dispatch") and symbolic:
            # functools.singledispatch
            a0 = self.resolve(args[0])
            cls = a0.cls if isinstance(a0, SObj) else (self.force(a0).cls if isinstance(a0, SLazy) else type(a0))
            return self.call(fn.dispatch(cls), args, kwargs)
        if symbolic:
            if models.shallow_safe(fn, args, kwargs):
                try:
                    return fn(*args, **kwargs)
                except (EngineError, PathAbort):
                    raise
                except Exception as e:  # noqa: BLE001
                    raise PyRaise(e)
            self.ctx.notes.append(f"havoc call of {getattr(fn, '__qualname__', fn)!s}")
            return Opaque(f"{getattr(fn, '__qualname__', repr(fn))}()")
        try:
            return fn(*args, **kwargs)
        except (EngineError, PathAbort, PyRaise):
            raise
        except Exception as e:  # noqa: BLE001
            raise PyRaise(e)

    def _wants_interp(self, func):
        return self.registry is not None and self.registry.force_interp(func)

    def _wants_interp_cls(self, cls):
        return self.registry is not None and self.registry.force_interp(cls)

    def construct(self, cls, args, kwargs):
        if issubclass(cls, BaseException) and cls.__module__ == "builtins":
            so = SObj(cls)
            so.fields["args"] = tuple(args)
            return so
        if not any(cls.__module__.startswith(p) for p in ("ffcx", "contracts", "spec")) and not getattr(
            cls, "_pyvc_interp", False
        ):
            m = models.lookup(cls)
            if m is not None:
                return m.f(self, *args, **kwargs)
            raise Unsupported(f"constructing {cls.__qualname__} with symbolic arguments")
        if issubclass(cls, tuple) and hasattr(cls, "_fields"):
            so = SObj(cls)
            names = list(cls._fields)
            for n, a in zip(names, args):
                so.fields[n] = a
            for k, v in kwargs.items():
                so.fields[k] = v
            return so
        if issubclass(cls, BaseException):
            so = SObj(cls)
            so.fields["args"] = tuple(args)
            return so
        so = SObj(cls)
        init = _lookup(cls, "__init__")
        if init is not None and isinstance(init, types.FunctionType):
            self.call(init, [so, *args], kwargs)
        return so

    def run_function(self, fn, args, kwargs):
        node = func_node(fn)
        globs = fn.__globals__
        env = Env(globs=globs)
        # closure cells of the real function
        if fn.__closure__:
            for name, cell in zip(fn.__code__.co_freevars, fn.__closure__):
                try:
                    env.vars[name] = cell.cell_contents
                except ValueError:
                    pass
        clo = Closure(node, env, fn.__name__, fn.__qualname__, is_lambda=isinstance(node, ast.Lambda))
        d = fn.__defaults__ or ()
        kd = fn.__kwdefaults__ or {}
        clo.defaults = (list(d), dict(kd))
        return self.run_closure(clo, args, kwargs)

    def bind(self, clo, args, kwargs):
        a = clo.node.args
        env = Env(parent=clo.env)
        pos = [x.arg for x in a.posonlyargs + a.args]
        defaults, kwdefaults = clo.defaults if clo.defaults is not None else ([], {})
        args = list(args)
        kwargs = dict(kwargs)
        n = len(pos)
        for i, name in enumerate(pos):
            if i < len(args):
                env.set(name, args[i])
            elif name in kwargs:
                env.set(name, kwargs.pop(name))
            else:
                di = i - (n - len(defaults))
                if di < 0:
                    raise PyRaise(TypeError(f"{clo.qual}() missing argument {name}"))
                env.set(name, defaults[di])
        if a.vararg:
            env.set(a.vararg.arg, tuple(args[n:]))
        elif len(args) > n:
            raise PyRaise(TypeError(f"{clo.qual}() takes {n} positional arguments"))
        for k in a.kwonlyargs:
            if k.arg in kwargs:
                env.set(k.arg, kwargs.pop(k.arg))
            elif k.arg in kwdefaults:
                env.set(k.arg, kwdefaults[k.arg])
            else:
                raise PyRaise(TypeError(f"missing kw-only {k.arg}"))
        if a.kwarg:
            env.set(a.kwarg.arg, kwargs)
        elif kwargs:
            raise PyRaise(TypeError(f"{clo.qual}() unexpected kwargs {list(kwargs)}"))
        return env

    def run_closure(self, clo, args, kwargs):
        env = self.bind(clo, args, kwargs)
        if clo.is_lambda:
            return self.eval(clo.node.body, env)
        if _is_generator(clo.node):
            return list(self._run_generator(clo, env))
        try:
            self.exec_block(clo.node.body, env)
        except _Return as r:
            return r.v
        return None

    def _run_generator(self, clo, env):
        # generators are run eagerly into a list (only simple 'yield x' statements)
        out = []
        env.vars["__yield__"] = out
        try:
            self.exec_block(clo.node.body, env)
        except _Return:
            pass
        return out

    # ---------------------------------------------------------------- statements
    def exec_block(self, stmts, env):
        for st in stmts:
            self.exec(st, env)

    def exec(self, st, env):
        self.steps += 1
        if self.steps > self.max_steps:
            raise EngineError("step budget exceeded")
        m = getattr(self, "x_" + type(st).__name__, None)
        if m is None:
            raise Unsupported(f"statement {type(st).__name__}")
        return m(st, env)

    def x_Expr(self, st, env):
        if isinstance(st.value, ast.Constant):
            return
        if isinstance(st.value, ast.Yield):
            v = self.eval(st.value.value, env) if st.value.value else None
            try:
                hook = env.lookup("__with_hook__")
            except Exception:  # noqa: BLE001
                hook = None
            if hook is not None:
                hook(v)
                return
            env.lookup("__yield__").append(v)
            return
        if _is_logging_call(st.value):
            if self.effects is not None:
                # the call itself is a no-op, but evaluating its arguments may raise
                for a in st.value.args:
                    self.eval(a, env)
            return
        self.eval(st.value, env)

    def x_Pass(self, st, env):
        pass

    def x_Import(self, st, env):
        for a in st.names:
            mod = __import__(a.name)
            if a.asname:
                import importlib

                env.set(a.asname, importlib.import_module(a.name))
            else:
                env.set(a.name.split(".")[0], mod)

    def x_ImportFrom(self, st, env):
        import importlib

        mod = importlib.import_module(st.module)
        for a in st.names:
            env.set(a.asname or a.name, getattr(mod, a.name))

    def x_Global(self, st, env):
        env.global_names.update(st.names)

    def x_Nonlocal(self, st, env):
        pass

    def x_Return(self, st, env):
        raise _Return(self.eval(st.value, env) if st.value is not None else None)

    def x_Break(self, st, env):
        raise _Break()

    def x_Continue(self, st, env):
        raise _Continue()

    def x_Assign(self, st, env):
        v = self.eval(st.value, env)
        for t in st.targets:
            self.assign(t, v, env)

    def x_AnnAssign(self, st, env):
        if st.value is not None:
            self.assign(st.target, self.eval(st.value, env), env)

    def x_AugAssign(self, st, env):
        t = st.target
        if isinstance(t, ast.Name):
            cur = env.lookup(t.id)
            if isinstance(cur, list) and isinstance(st.op, ast.Add):
                rhs = self.eval(st.value, env)
                if isinstance(rhs, models.SList):
                    self._store_name(env, t.id, models.slist_binop(self, ast.Add, cur, rhs))
                    return
                rhs = self.iterate(rhs)
                cur.extend(rhs)  # in place, like list.__iadd__
                return
            if isinstance(cur, models.SList) and isinstance(st.op, ast.Add):
                rhs = self.eval(st.value, env)
                self._store_name(env, t.id, models.slist_binop(self, ast.Add, cur, rhs))
                return
            new = self.binop(st.op, cur, self.eval(st.value, env))
            self._store_name(env, t.id, new)
        elif isinstance(t, ast.Attribute):
            obj = self.eval(t.value, env)
            cur = self.getattr(obj, t.attr)
            rhs = self.eval(st.value, env)
            if isinstance(cur, list) and isinstance(st.op, ast.Add):
                cur.extend(self.iterate(rhs))
                return
            self.setattr(obj, t.attr, self.binop(st.op, cur, rhs))
        elif isinstance(t, ast.Subscript):
            obj = self.eval(t.value, env)
            idx = self.eval_index(t.slice, env)
            cur = self.getitem(obj, idx)
            rhs = self.eval(st.value, env)
            if isinstance(cur, list) and isinstance(st.op, ast.Add):
                cur.extend(self.iterate(rhs))
                return
            self.setitem(obj, idx, self.binop(st.op, cur, rhs))
        else:
            raise Unsupported("augassign target")

    def _store_name(self, env, name, v):
        if name in env.global_names:
            raise Unsupported("assignment to a global")
        e = env
        env.set(name, v)

    def assign(self, t, v, env):
        if isinstance(t, ast.Name):
            self._store_name(env, t.id, v)
        elif isinstance(t, ast.Tuple | ast.List):
            items = self.iterate(v)
            star = [i for i, e in enumerate(t.elts) if isinstance(e, ast.Starred)]
            if star:
                i = star[0]
                after = len(t.elts) - i - 1
                if len(items) < len(t.elts) - 1:
                    raise PyRaise(ValueError("not enough values to unpack"))
                for e, x in zip(t.elts[:i], items[:i]):
                    self.assign(e, x, env)
                self.assign(t.elts[i].value, list(items[i : len(items) - after]), env)
                for e, x in zip(t.elts[i + 1 :], items[len(items) - after :]):
                    self.assign(e, x, env)
            else:
                if len(items) != len(t.elts):
                    raise PyRaise(ValueError(f"unpack: expected {len(t.elts)} got {len(items)}"))
                for e, x in zip(t.elts, items):
                    self.assign(e, x, env)
        elif isinstance(t, ast.Attribute):
            self.setattr(self.eval(t.value, env), t.attr, v)
        elif isinstance(t, ast.Subscript):
            self.setitem(self.eval(t.value, env), self.eval_index(t.slice, env), v)
        else:
            raise Unsupported(f"assign target {type(t).__name__}")

    def x_Delete(self, st, env):
        for t in st.targets:
            if isinstance(t, ast.Name):
                env.vars.pop(t.id, None)
            elif isinstance(t, ast.Subscript):
                obj = self.eval(t.value, env)
                idx = self.eval_index(t.slice, env)
                if is_symbolic(idx):
                    raise Unsupported("del with symbolic index")
                del obj[idx]
            else:
                raise Unsupported("del target")

    def x_If(self, st, env):
        if self.truth(self.eval(st.test, env), f"if@{st.lineno}"):
            self.exec_block(st.body, env)
        else:
            self.exec_block(st.orelse, env)

    def x_Assert(self, st, env):
        if not self.truth(self.eval(st.test, env), f"assert@{st.lineno}"):
            raise PyRaise(AssertionError(ast.unparse(st.test)))

    def x_Raise(self, st, env):
        if st.exc is None:
            cur = env.lookup("__active_exc__")
            raise cur
        e = self.eval(st.exc, env)
        if isinstance(e, type) and issubclass(e, BaseException):
            e = e()
        raise PyRaise(e)

    def x_For(self, st, env):
        it = self.eval(st.iter, env)
        h = self.registry.loop_handler(st) if self.registry else None
        if h is not None:
            return h(self, st, env, it)
        items = self.iterate(it, lazy=True)
        broke = False
        for x in items:
            self.assign(st.target, x, env)
            try:
                self.exec_block(st.body, env)
            except _Break:
                broke = True
                break
            except _Continue:
                continue
        if not broke:
            self.exec_block(st.orelse, env)

    def x_While(self, st, env):
        n = 0
        while self.truth(self.eval(st.test, env), f"while@{st.lineno}"):
            n += 1
            if n > 10000:
                raise EngineError("while loop bound")
            try:
                self.exec_block(st.body, env)
            except _Break:
                return
            except _Continue:
                continue
        self.exec_block(st.orelse, env)

    def x_FunctionDef(self, st, env):
        clo = Closure(st, env, st.name)
        a = st.args
        clo.defaults = (
            [self.eval(d, env) for d in a.defaults],
            {k.arg: self.eval(d, env) for k, d in zip(a.kwonlyargs, a.kw_defaults) if d is not None},
        )
        env.set(st.name, clo)

    def x_ClassDef(self, st, env):
        raise Unsupported("class definition inside interpreted code")

    def x_Try(self, st, env):
        try:
            try:
                self.exec_block(st.body, env)
            except PyRaise as pr:
                for h in st.handlers:
                    if h.type is None:
                        match = True
                    else:
                        classes = _norm_classes(self.eval(h.type, env))
                        match = issubclass(pr.cls, classes)
                    if match:
                        if h.name:
                            env.set(h.name, pr.exc)
                        saved = env.vars.get("__active_exc__")
                        env.vars["__active_exc__"] = pr
                        try:
                            self.exec_block(h.body, env)
                        finally:
                            if saved is None:
                                env.vars.pop("__active_exc__", None)
                            else:
                                env.vars["__active_exc__"] = saved
                        break
                else:
                    raise
            else:
                self.exec_block(st.orelse, env)
        finally:
            if st.finalbody:
                self.exec_block(st.finalbody, env)

    def _generator_cm(self, call, env):
        """If `call` invokes a repository function decorated with contextlib.contextmanager, return (function, args, kwargs)."""
        if not isinstance(call, ast.Call):
            return None
        try:
            f = self.eval(call.func, env)
        except Exception:  # noqa: BLE001
            return None
        inner = getattr(f, "__wrapped__", None)
        if inner is None or not isinstance(inner, types.FunctionType) or not interpretable(inner):
            return None
        try:
            node = func_node(inner)
        except Exception:  # noqa: BLE001
            return None
        if not _is_generator(node):
            return None
        args = [self.eval(a, env) for a in call.args]
        kwargs = {k.arg: self.eval(k.value, env) for k in call.keywords}
        return inner, node, args, kwargs

    def x_With(self, st, env):
        # `with cm(...) as x: BODY` for a generator-based context manager defined in the repository: the generator body is
        # interpreted and BODY runs at its `yield`, so an exception of BODY propagates through the generator's own
        # try/except/finally exactly as contextlib throws it in (no native execution of repository code)
        if len(st.items) >= 1:
            g = self._generator_cm(st.items[0].context_expr, env)
            if g is not None:
                inner, node, args, kwargs = g
                globs = inner.__globals__
                genv0 = Env(globs=globs)
                clo = Closure(node, genv0, inner.__name__, inner.__qualname__)
                clo.defaults = (list(inner.__defaults__ or ()), dict(inner.__kwdefaults__ or {}))
                genv = self.bind(clo, args, kwargs)
                rest = ast.With(items=st.items[1:], body=st.body) if len(st.items) > 1 else None
                state = {"yielded": 0}

                def hook(value):
                    state["yielded"] += 1
                    if st.items[0].optional_vars is not None:
                        self.assign(st.items[0].optional_vars, value, env)
                    if rest is not None:
                        ast.copy_location(rest, st)
                        self.x_With(rest, env)
                    else:
                        self.exec_block(st.body, env)

                genv.vars["__with_hook__"] = hook
                try:
                    self.exec_block(node.body, genv)
                except _Return:
                    pass
                if state["yielded"] != 1:
                    raise EngineError(f"generator context manager {inner.__qualname__} yielded {state['yielded']} times")
                return
        mgrs = []
        try:
            for item in st.items:
                cm = self.eval(item.context_expr, env)
                v = self.enter(cm)
                mgrs.append(cm)
                if item.optional_vars is not None:
                    self.assign(item.optional_vars, v, env)
            self.exec_block(st.body, env)
        except PyRaise as pr:
            swallowed = False
            for cm in reversed(mgrs):
                if self.exit(cm, pr):
                    swallowed = True
                    break
            mgrs = []
            if not swallowed:
                raise
        except (_Return, _Break, _Continue):
            for cm in reversed(mgrs):
                self.exit(cm, None)
            mgrs = []
            raise
        else:
            for cm in reversed(mgrs):
                self.exit(cm, None)

    def enter(self, cm):
        if self.registry is not None:
            h = self.registry.cm_handler(cm)
            if h is not None:
                return h.enter(self, cm)
        if isinstance(cm, Opaque):
            self.ctx.event("enter", cm.origin)
            return Opaque(f"{cm.origin}.__enter__()")
        if is_symbolic(cm):
            raise Unsupported("symbolic context manager")
        return cm.__enter__()

    def exit(self, cm, pr):
        if self.registry is not None:
            h = self.registry.cm_handler(cm)
            if h is not None:
                return h.exit(self, cm, pr)
        if isinstance(cm, Opaque):
            self.ctx.event("exit", cm.origin)
            return False
        if pr is None:
            return cm.__exit__(None, None, None)
        exc = pr.exc if isinstance(pr.exc, BaseException) else Exception("symbolic")
        return cm.__exit__(type(exc), exc, None)

    # ---------------------------------------------------------------- containers
    def iterate(self, it, lazy=False):
        it = self.resolve(it)
        if isinstance(it, list | tuple):
            return list(it)
        if isinstance(it, dict):
            return list(it.keys())
        if isinstance(it, models.SList):
            return it.concrete_items(self)
        if isinstance(it, SV):
            raise Unsupported(f"iteration over symbolic {it.kind}")
        if isinstance(it, Opaque) and self.effects is not None:
            return self.effects.opaque_iterate(self, it)
        if isinstance(it, SObj | SLazy | Opaque):
            raise Unsupported(f"iteration over {it!r}")
        try:
            return list(it)
        except (EngineError, PathAbort):
            raise
        except Exception as e:  # noqa: BLE001
            raise PyRaise(e)

    def eval_index(self, node, env):
        if isinstance(node, ast.Slice):
            return slice(
                self.eval(node.lower, env) if node.lower else None,
                self.eval(node.upper, env) if node.upper else None,
                self.eval(node.step, env) if node.step else None,
            )
        if isinstance(node, ast.Tuple):
            return tuple(self.eval_index(e, env) for e in node.elts)
        return self.eval(node, env)

    def getitem(self, obj, idx):
        obj = self.resolve(obj)
        idx = self.resolve(idx)
        if _isobj(obj):
            cls = obj.cls if isinstance(obj, SObj) else obj.base
            if issubclass(cls, tuple) and hasattr(cls, "_fields") and isinstance(idx, int):
                return self.getattr(obj, cls._fields[idx])
            m = _lookup(cls, "__getitem__")
            if m is None:
                raise PyRaise(TypeError("not subscriptable"))
            return self.call(m, [obj, idx], {})
        if isinstance(obj, models.SList):
            return obj.getitem(self, idx)
        if isinstance(obj, models.SMap):
            return obj.getitem(self, idx)
        if isinstance(obj, Opaque):
            if self.effects is not None:
                return self.effects.opaque_getitem(self, obj, idx)
            return Opaque(f"{obj.origin}[...]")
        if isinstance(idx, slice) and is_symbolic([idx.start, idx.stop, idx.step]):
            return models.symbolic_slice(self, obj, idx)
        if is_symbolic(idx) and isinstance(obj, dict) and _identity_key(idx):
            try:
                return obj[idx]  # keys that are (tuples of) symbolic objects: identity semantics
            except KeyError as e:
                raise PyRaise(e)
        if is_symbolic(idx):
            if isinstance(obj, list | tuple) and isinstance(idx, SV) and idx.kind == "int":
                return models.select(self, obj, idx)
            if isinstance(obj, dict) and isinstance(idx, SV) and idx.kind == "ref":
                return models.dict_select(self, obj, idx)
            if isinstance(obj, dict) and _isobj(idx):
                for k, v in obj.items():
                    if k is idx:
                        return v
                raise PyRaise(KeyError(idx))
            if _has_repo_dunder(obj, "__getitem__"):
                return self.call(_lookup(type(obj), "__getitem__"), [obj, idx], {})
            raise Unsupported(f"symbolic index {idx!r} into {type(obj).__name__}")
        if _has_repo_dunder(obj, "__getitem__") and self._wants_interp(_lookup(type(obj), "__getitem__")):
            return self.call(_lookup(type(obj), "__getitem__"), [obj, idx], {})
        try:
            return obj[idx]
        except (EngineError, PathAbort):
            raise
        except Exception as e:  # noqa: BLE001
            raise PyRaise(e)

    def setitem(self, obj, idx, v):
        obj = self.resolve(obj)
        if isinstance(obj, models.SMap):
            return obj.setitem(self, idx, v)
        if is_symbolic(idx) and not (isinstance(obj, dict) and (_isobj(idx) or _identity_key(idx))):
            raise Unsupported("store at symbolic index")
        if isinstance(obj, list | dict):
            try:
                obj[idx] = v
            except Exception as e:  # noqa: BLE001
                raise PyRaise(e)
            return
        if is_symbolic(v) or _isobj(obj):
            raise Unsupported(f"setitem on {type(obj).__name__}")
        try:
            obj[idx] = v
        except Exception as e:  # noqa: BLE001
            raise PyRaise(e)

    # ---------------------------------------------------------------- expressions
    def eval(self, node, env):
        self.steps += 1
        if self.steps > self.max_steps:
            raise EngineError("step budget exceeded")
        m = getattr(self, "e_" + type(node).__name__, None)
        if m is None:
            raise Unsupported(f"expression {type(node).__name__}")
        return m(node, env)

    def e_Constant(self, n, env):
        return n.value

    def e_Name(self, n, env):
        return env.lookup(n.id)

    def e_Attribute(self, n, env):
        return self.getattr(self.eval(n.value, env), n.attr)

    def e_Subscript(self, n, env):
        return self.getitem(self.eval(n.value, env), self.eval_index(n.slice, env))

    def e_Tuple(self, n, env):
        return tuple(self._elts(n.elts, env))

    def e_List(self, n, env):
        return self._elts(n.elts, env)

    def e_Set(self, n, env):
        xs = self._elts(n.elts, env)
        if is_symbolic(xs):
            return models.symbolic_set(self, xs)
        return set(xs)

    def _elts(self, elts, env):
        out = []
        for e in elts:
            if isinstance(e, ast.Starred):
                out.extend(self.iterate(self.eval(e.value, env)))
            else:
                out.append(self.eval(e, env))
        return out

    def e_Dict(self, n, env):
        d = {}
        for k, v in zip(n.keys, n.values):
            if k is None:
                d.update(self.eval(v, env))
            else:
                kk = self.eval(k, env)
                if isinstance(kk, SV):
                    raise Unsupported("dict display with symbolic key")
                d[kk] = self.eval(v, env)
        return d

    def e_BinOp(self, n, env):
        return self.binop(n.op, self.eval(n.left, env), self.eval(n.right, env))

    def e_UnaryOp(self, n, env):
        return self.unary(n.op, self.eval(n.operand, env))

    def e_BoolOp(self, n, env):
        is_and = isinstance(n.op, ast.And)
        v = None
        for i, e in enumerate(n.values):
            v = self.eval(e, env)
            if i == len(n.values) - 1:
                return v
            t = self.truth(v, f"boolop@{n.lineno}")
            if is_and and not t:
                return v if not isinstance(v, SV) else False
            if not is_and and t:
                return v if not isinstance(v, SV) else True
        return v

    def e_Compare(self, n, env):
        left = self.eval(n.left, env)
        res = True
        for op, c in zip(n.ops, n.comparators):
            right = self.eval(c, env)
            r = self.compare(op, left, right)
            if len(n.ops) == 1:
                return r
            res = models.and_(res, r)
            if res is False:
                return False
            left = right
        return res

    def e_IfExp(self, n, env):
        if self.truth(self.eval(n.test, env), f"ifexp@{n.lineno}"):
            return self.eval(n.body, env)
        return self.eval(n.orelse, env)

    def e_Lambda(self, n, env):
        clo = Closure(n, env, "<lambda>", is_lambda=True)
        a = n.args
        clo.defaults = (
            [self.eval(d, env) for d in a.defaults],
            {k.arg: self.eval(d, env) for k, d in zip(a.kwonlyargs, a.kw_defaults) if d is not None},
        )
        return clo

    def e_NamedExpr(self, n, env):
        v = self.eval(n.value, env)
        env.set(n.target.id, v)
        return v

    def e_Starred(self, n, env):
        raise Unsupported("starred expression outside call/display")

    def e_JoinedStr(self, n, env):
        parts = []
        for v in n.values:
            if isinstance(v, ast.Constant):
                parts.append(v.value)
            else:
                x = self.eval(v.value, env)
                spec = None
                if v.format_spec is not None:
                    spec = self.eval(v.format_spec, env)
                parts.append(models.format_value(self, x, v.conversion, spec))
        return models.concat_str(self, parts)

    def e_FormattedValue(self, n, env):
        x = self.eval(n.value, env)
        return models.format_value(self, x, n.conversion, None)

    def _comp(self, gens, env, emit):
        def rec(i, env):
            if i == len(gens):
                emit(env)
                return
            g = gens[i]
            it = self.eval(g.iter, env)
            for x in self.iterate(it):
                e2 = Env(parent=env)
                self.assign(g.target, x, e2)
                if all(self.truth(self.eval(c, e2), f"comp-if@{g.iter.lineno}") for c in g.ifs):
                    rec(i + 1, e2)

        rec(0, env)

    def e_ListComp(self, n, env):
        if len(n.generators) == 1 and isinstance(n.generators[0].iter, ast.Name | ast.Subscript | ast.Attribute):
            it = self.eval(n.generators[0].iter, env)
            if isinstance(it, models.SList):
                from . import slist

                return slist.comprehension(self, n, env, it)
        out = []
        self._comp(n.generators, env, lambda e: out.append(self.eval(n.elt, e)))
        return out

    def e_GeneratorExp(self, n, env):
        return self.e_ListComp(n, env)

    def e_SetComp(self, n, env):
        out = self.e_ListComp(n, env)
        if is_symbolic(out):
            raise Unsupported("set comprehension with symbolic elements")
        return set(out)

    def e_DictComp(self, n, env):
        out = {}

        def emit(e):
            k = self.eval(n.key, e)
            if isinstance(k, SV):
                raise Unsupported("dict comprehension with symbolic key")
            out[k] = self.eval(n.value, e)

        self._comp(n.generators, env, emit)
        return out

    def e_Call(self, n, env):
        fn = self.eval(n.func, env)
        args = []
        for a in n.args:
            if isinstance(a, ast.Starred):
                args.extend(self.iterate(self.eval(a.value, env)))
            else:
                args.append(self.eval(a, env))
        kwargs = {}
        for k in n.keywords:
            if k.arg is None:
                kwargs.update(self.eval(k.value, env))
            else:
                kwargs[k.arg] = self.eval(k.value, env)
        # builtins that need the interpreter
        if fn is isinstance:
            return self.isinstance(args[0], args[1])
        if fn is getattr and is_symbolic(args[0]):
            try:
                return self.getattr(args[0], args[1])
            except PyRaise:
                if len(args) > 2:
                    return args[2]
                raise
        if fn is hasattr and is_symbolic(args[0]):
            try:
                self.getattr(args[0], args[1])
                return True
            except PyRaise:
                return False
        if fn is setattr and is_symbolic(args):
            return self.setattr(*args)
        if fn is super:
            raise Unsupported("super()")
        return self.call(fn, args, kwargs)

    def e_Slice(self, n, env):
        return self.eval_index(n, env)

    def e_Yield(self, n, env):
        raise Unsupported("yield expression")


_MISSING = object()
_REFLECT = {"__eq__": "__eq__", "__ne__": "__ne__", "__lt__": "__gt__", "__gt__": "__lt__", "__le__": "__ge__", "__ge__": "__le__"}


def _identity_key(k):
    """A dict key made of symbolic OBJECTS (no symbolic scalars): usable with identity semantics."""
    if isinstance(k, SObj | SLazy):
        return True
    if isinstance(k, tuple):
        return all(_identity_key(x) or not is_symbolic(x) for x in k) and any(is_symbolic(x) for x in k)
    return False


def _oname(so):
    return getattr(so.origin, "name", None) or f"{so.cls.__name__}#{so.uid}"


def _simple(v):
    return isinstance(v, int | float | str | bool | type(None))


def _lookup(cls, name):
    for k in cls.__mro__:
        if name in k.__dict__:
            v = k.__dict__[name]
            if k is object:
                return None
            return v
    return None


def _has_repo_dunder(x, name):
    if x is None or isinstance(x, SV | Opaque | int | float | str | list | tuple | dict):
        return False
    m = _lookup(type(x), name)
    return isinstance(m, types.FunctionType) and interpretable(m)


def _norm_classes(c):
    if isinstance(c, types.UnionType) or typing.get_origin(c) is typing.Union:
        return tuple(typing.get_args(c))
    if isinstance(c, tuple):
        out = []
        for x in c:
            y = _norm_classes(x)
            out.extend(y if isinstance(y, tuple) else (y,))
        return tuple(out)
    return c


def _is_generator(node):
    for n in ast.walk(node):
        if isinstance(n, ast.Yield | ast.YieldFrom):
            # only if it belongs to this function (not a nested def)
            return True
    return False


def _is_logging_call(e):
    if not isinstance(e, ast.Call):
        return False
    f = e.func
    if isinstance(f, ast.Attribute) and isinstance(f.value, ast.Name):
        if f.value.id == "logger" and f.attr in ("info", "debug", "warning", "error", "exception", "critical", "log"):
            return True
        if f.value.id == "warnings" and f.attr == "warn":
            return True
    return False
