"""Effect-trace mode of E1 (C14/C15): values are opaque, what is analysed is the order of effects
on every control-flow path, including the exceptional ones of the stated fault model.

* calls named in `effect_methods` / `effect_funcs` log an event (and may fork into a failing outcome);
* calls in the TOTAL whitelists cannot raise (assumption, listed in the evidence);
* every other call on an opaque value, and every subscript of an opaque value, MAY RAISE: the path forks.
"""

from __future__ import annotations

import types

from .interp import PyRaise, interpretable
from .values import Opaque, SObj, is_symbolic

TOTAL_METHODS = {
    "joinpath", "with_suffix", "format", "splitlines", "getvalue", "copy", "encode", "hexdigest", "join", "items",
    "keys", "values", "get", "startswith", "endswith", "strip", "split", "append", "extend", "write", "close",
    "arguments", "number", "name", "stem", "lower", "upper", "update", "time", "as_posix", "info", "debug", "warning",
}
TOTAL_FUNCS = {"str", "repr", "len", "tuple", "list", "sorted", "set", "enumerate", "zip", "range", "isinstance", "print",
               "int", "float", "bool", "dict", "id", "hash", "getattr", "StringIO", "StreamHandler", "Path", "mkdtemp",
               "time", "dtype", "get_config_var", "get_include_path", "copy", "deepcopy", "issubdtype"}


class Fault:
    """Marker carried by exceptions injected by the fault model."""


class EffectModel:
    def __init__(self, effect_funcs=None, effect_methods=None, total_methods=(), total_funcs=(), externals=()):
        self.effect_funcs = dict(effect_funcs or {})  # real function object -> handler(interp, fn, args, kwargs)
        self.effect_methods = dict(effect_methods or {})  # method name on an opaque receiver -> handler
        self.total_methods = set(TOTAL_METHODS) | set(total_methods)
        self.total_funcs = set(TOTAL_FUNCS) | set(total_funcs)
        self.externals = set(externals)  # repo functions treated as may-raise externals instead of being inlined
        self.assumed_total = set()

    # -- helpers ------------------------------------------------------------------------
    def may_raise(self, interp, label, exc_cls=RuntimeError):
        if interp.ctx.decide(2, f"fault:{label}") == 1:
            interp.ctx.event("fault", label)
            e = SObj(exc_cls)
            e.fields["args"] = (f"injected fault at {label}",)
            e.fields["fault_label"] = label
            raise PyRaise(e)

    @staticmethod
    def last(origin):
        o = origin.rstrip(")")
        o = o.rstrip("(")
        return o.split(".")[-1]

    # -- dispatch ------------------------------------------------------------------------
    def opaque_call(self, interp, fn, args, kwargs):
        name = self.last(fn.origin)
        h = self.effect_methods.get(name)
        if h is not None:
            return h(interp, fn, args, kwargs)
        if name in self.total_methods:
            self.assumed_total.add(name)
            return Opaque(f"{fn.origin}()", typ=getattr(fn, "typ", None))
        self.may_raise(interp, f"call {fn.origin}")
        return Opaque(f"{fn.origin}()")

    def real_call(self, interp, fn, args, kwargs):
        try:
            h = self.effect_funcs.get(fn)
        except TypeError:
            h = None
        if h is not None:
            return h(interp, fn, args, kwargs)
        from . import models

        if models.shallow_safe(fn, args, kwargs):
            return NotImplemented
        if isinstance(fn, type) and issubclass(fn, BaseException):
            return NotImplemented  # exception objects are constructed by the interpreter
        if isinstance(fn, types.MethodType) and isinstance(fn.__self__, str | list | dict | tuple):
            if is_symbolic(args) or is_symbolic(kwargs):
                return Opaque(f"{type(fn.__self__).__name__}.{fn.__name__}()")
            return NotImplemented
        if isinstance(fn, types.BuiltinMethodType) and isinstance(getattr(fn, "__self__", None), str | list | dict | tuple):
            if is_symbolic(args) or is_symbolic(kwargs):
                return Opaque(f"{type(fn.__self__).__name__}.{fn.__name__}()")
            return NotImplemented
        if isinstance(fn, types.FunctionType) and interpretable(fn) and fn not in self.externals:
            return NotImplemented  # inlined by the interpreter
        w = getattr(fn, "__wrapped__", None)
        if isinstance(w, types.FunctionType) and interpretable(w):
            # a decorated repository function (e.g. a contextmanager used outside a with statement): treating the wrapper
            # as an opaque external would hide the repository code's effects from the model
            from .values import Unsupported

            raise Unsupported(f"decorated repository function {getattr(w, '__qualname__', w)} called outside a modelled construct")
        if not (is_symbolic(args) or is_symbolic(kwargs)) and fn not in self.externals:
            nm = getattr(fn, "__name__", "")
            if nm in self.total_funcs or getattr(fn, "__module__", "") in ("builtins", "operator"):
                return NotImplemented  # concrete call of a pure builtin: executed natively
        name = getattr(fn, "__qualname__", None) or getattr(fn, "__name__", None) or repr(fn)
        short = name.split(".")[-1]
        if (short in self.total_funcs or short in self.total_methods) and fn not in self.externals:
            self.assumed_total.add(short)
            return Opaque(f"{name}()")
        self.may_raise(interp, f"call {name}")
        return Opaque(f"{name}()")

    def opaque_iterate(self, interp, obj):
        """An opaque iterable: may raise, else zero or one (opaque) element (structural bound, recorded)."""
        self.may_raise(interp, f"iterate {obj.origin}", TypeError)
        interp.ctx.ghost.setdefault("structural_bounds", set()).add("opaque iterables have at most one element")
        if interp.ctx.decide(2, f"len({obj.origin}) in (0,1)") == 0:
            return []
        return [Opaque(f"{obj.origin}[0]")]

    def opaque_getitem(self, interp, obj, idx):
        self.may_raise(interp, f"subscript {obj.origin}[{idx!r}]", IndexError)
        return Opaque(f"{obj.origin}[...]")


# --------------------------------------------------------------------------- path descriptors
def descr(v):
    if isinstance(v, Opaque):
        return getattr(v, "descr", None) or f"<{v.origin}>"
    return str(v)


def mk_path(d):
    o = Opaque(f"path:{d}", typ="path")
    o.descr = d
    return o


def mk_str(d):
    o = Opaque(f"str:{d}", typ="str")
    o.descr = d
    return o


def with_suffix(d, suffix):
    head, _, tail = d.rpartition("/")
    if "." in tail:
        tail = tail[: tail.rindex(".")]
    return (head + "/" if head else "") + tail + suffix
