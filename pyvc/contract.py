"""Contracts (sidecar), the registry, the verifier driver and counterexample replay."""

from __future__ import annotations

import ast
import fractions
import importlib
import importlib.util
import inspect
import sys
import time
import traceback
import types

import z3

from . import models
from .ctx import Budget, Ctx, PathAbort, explore
from .interp import Closure, Env, Interp, PyRaise, func_node
from .values import SV, EngineError, Opaque, SLazy, SObj, Unsupported, fresh_name, is_symbolic


# =============================================================================== types
class T:
    def make(self, interp, name):
        raise NotImplementedError


class Int(T):
    def __init__(self, lo=None, hi=None):
        self.lo, self.hi = lo, hi

    def make(self, interp, name):
        v = SV(z3.Int(name), "int")
        if self.lo is not None:
            interp.ctx.assume(v.z >= self.lo)
        if self.hi is not None:
            interp.ctx.assume(v.z <= self.hi)
        return v


class Real(T):
    def make(self, interp, name):
        return SV(z3.Real(name), "real")


class Bool(T):
    def make(self, interp, name):
        return SV(z3.Bool(name), "bool")


class Str(T):
    def make(self, interp, name):
        return SV(z3.String(name), "str")


class Const(T):
    def __init__(self, v):
        self.v = v

    def make(self, interp, name):
        return self.v() if callable(self.v) and getattr(self.v, "_factory", False) else self.v


class Enum(T):
    """One of a finite set of concrete values; each value is its own path."""

    def __init__(self, *values):
        self.values = values

    def make(self, interp, name):
        k = interp.ctx.decide(len(self.values), f"enum {name}")
        return self.values[k]


class Ref(T):
    """One of a finite set of concrete values, kept symbolic (no fork)."""

    def __init__(self, *values):
        self.values = list(values)

    def make(self, interp, name):
        return models.mk_ref(interp.ctx, self.values, name)


class OneOf(T):
    def __init__(self, *types_):
        self.types = types_

    def make(self, interp, name):
        k = interp.ctx.decide(len(self.types), f"oneof {name}")
        return self.types[k].make(interp, name)


class Lazy(T):
    def __init__(self, base, cands=None):
        self.base = base
        self.cands = cands

    def make(self, interp, name):
        c = self.cands
        if callable(c) and not isinstance(c, list | tuple):
            c = c()
        return SLazy(self.base, c, name)


class Rec(T):
    def __init__(self, cls, **fields):
        self.cls = cls
        self.fields = fields

    def make(self, interp, name):
        so = SObj(self.cls)
        so.origin = types.SimpleNamespace(name=name)
        for k, t in self.fields.items():
            so.fields[k] = t.make(interp, f"{name}.{k}") if isinstance(t, T) else t
        return so


class ListOf(T):
    def __init__(self, elem, n, as_tuple=False):
        self.elem = elem
        self.n = n
        self.as_tuple = as_tuple

    def make(self, interp, name):
        if isinstance(self.n, int):
            n = self.n
        else:
            lo, hi = self.n
            n = lo + interp.ctx.decide(hi - lo + 1, f"len {name}")
            interp.ctx.ghost.setdefault("structural_bounds", set()).add(f"len({name})<={hi}")
        xs = [self.elem.make(interp, f"{name}[{i}]") for i in range(n)]
        return tuple(xs) if self.as_tuple else xs


class TupleOf(T):
    def __init__(self, *elems):
        self.elems = elems

    def make(self, interp, name):
        return tuple(t.make(interp, f"{name}[{i}]") for i, t in enumerate(self.elems))


class DictOf(T):
    def __init__(self, mapping):
        self.mapping = mapping

    def make(self, interp, name):
        return {k: (t.make(interp, f"{name}[{k!r}]") if isinstance(t, T) else t) for k, t in self.mapping.items()}


class Native(T):
    """A concrete object built by a factory (fresh per path)."""

    def __init__(self, factory):
        self.factory = factory

    def make(self, interp, name):
        return self.factory()


class Custom(T):
    def __init__(self, f):
        self.f = f

    def make(self, interp, name):
        return self.f(interp, name)


# =============================================================================== contracts
def resolve_target(target):
    """'ffcx/codegeneration/symbols.py::FFCXBackendSymbols.entity' -> real function object."""
    path, qual = target.split("::")
    modname = path[:-3].replace("/", ".")
    mod = importlib.import_module(modname)
    obj = mod
    for p in qual.split("."):
        obj = inspect.getattr_static(obj, p) if isinstance(obj, type) else getattr(obj, p)
    if isinstance(obj, staticmethod | classmethod):
        obj = obj.__func__
    return obj


class Contract:
    def __init__(
        self,
        target,
        params,
        ensures=(),
        requires=(),
        raises=None,
        properties=(),
        result=None,
        modular=True,
        inline=(),
        mutants=(),
        examples=None,
        name=None,
        fn=None,
        note="",
        bounded=None,
        max_paths=4000,
        ghosts=None,
        ghost_names=(),
        native_patch=None,
        call=None,
        fix_native=None,
    ):
        self.target = target
        self.fn = fn if fn is not None else resolve_target(target)
        self.params = params  # ordered dict name -> T
        self.requires = list(requires)
        self.ensures = list(ensures)
        self.raises = raises  # None: any exception allowed (rejection); or list of clauses that must hold on raise
        self.properties = list(properties)
        self.result = result
        self.modular = modular
        self.inline = list(inline)
        self.mutants = list(mutants)
        self.examples = examples
        self.name = name or target.split("::")[1]
        self.note = note
        self.bounded = bounded  # text: structural bound if the contract is only proved(<=N)
        self.max_paths = max_paths
        self.ghosts = dict(ghosts or {})  # ghost inputs made before the parameters (not passed to the function)
        self.ghost_names = list(ghost_names)  # names in ctx.ghost (set by effects) that clauses/replay may read
        self.fix_native = fix_native  # f(native inputs dict) -> native inputs dict: turn stand-ins into real objects for replay
        self.call = list(call) if call else None  # argument expressions over the params (default: the params in order)
        self.native_patch = native_patch  # f(native ghosts) -> context manager installing the externals for replay


class Registry:
    def __init__(self, spec_globals=None):
        self.contracts = {}  # fn -> Contract
        self.by_name = {}
        self.shapes = {}
        self.effects = {}
        self.interp_force = set()
        self.spec_globals = spec_globals or {}
        self.opaque_specs = {}  # spec function -> (kind) : return an uninterpreted value on unresolved lazies
        self.loop_handlers = []
        self.cm_handlers = []
        self.assumptions = set()
        self.common_fields = {}

    def add(self, c: Contract):
        self.contracts[c.fn] = c
        self.by_name[c.name] = c
        return c

    def lookup_modular(self, fn):
        c = self.contracts.get(fn)
        if c is not None and c.modular:
            return c
        return None

    def lookup_effect(self, fn):
        try:
            h = self.effects.get(fn)
        except TypeError:
            return None
        if h is not None:
            return h
        spec = self.opaque_specs.get(fn) if isinstance(fn, types.FunctionType) else None
        if spec is not None:
            return self._opaque_spec_call
        return None

    def _opaque_spec_call(self, interp, fn, args, kwargs):
        """ev(lazy, ...) on an unresolved lazy = a variable tied to the object (see Interp._materialise)."""
        a0 = interp.resolve(args[0])
        if isinstance(a0, SLazy):
            kind = self.opaque_specs[fn]
            if fn not in a0.evvars:
                nm = fresh_name(f"{fn.__name__}_{a0.name}")
                var = {"real": z3.Real, "int": z3.Int, "bool": z3.Bool}[kind](nm)
                a0.evvars[fn] = (var, list(args[1:]))
            return SV(a0.evvars[fn][0], kind)
        if not is_symbolic(args) and not any(isinstance(a, models.SymEnv) for a in args):
            return fn(*args, **kwargs)
        return interp.run_function(fn, args, kwargs)

    def force_interp(self, fn):
        return fn in self.interp_force

    def loop_handler(self, st):
        for h in self.loop_handlers:
            r = h(st)
            if r is not None:
                return r
        return None

    def comp_handler(self, interp, n, env):
        return None

    def cm_handler(self, cm):
        for h in self.cm_handlers:
            if h.matches(cm):
                return h
        return None

    # ------------------------------------------------------------ modular use of a contract
    def apply_contract(self, interp, c, fn, args, kwargs):
        sig = inspect.signature(fn)
        try:
            ba = sig.bind(*args, **kwargs)
        except TypeError as e:
            raise PyRaise(e)
        ba.apply_defaults()
        env = Env(globs=self.spec_globals)
        for k, v in ba.arguments.items():
            env.set(k, v)
        env.set("env", interp.ctx.ghost.setdefault("symenv", models.SymEnv()))
        for i, r in enumerate(c.requires):
            v = interp.eval(_parse(r), env)
            z = models.as_bool_sv(interp, v)
            if z is True:
                status = "proved"
                info = None
            elif z is False:
                status, info = "refuted", None
            else:
                status, info = interp.ctx.valid(z.z)
            interp.ctx.obligations.append(
                dict(kind="callee-requires", callee=c.name, clause=r, status=status, model=info)
            )
        if c.result is None:
            raise EngineError(f"contract {c.name} has no result type; cannot be used modularly")
        res = c.result.make(interp, fresh_name(f"res_{fn.__name__}"))
        env.set("result", res)
        for e in c.ensures:
            v = interp.eval(_parse(e), env)
            interp.ctx.assume(models.as_bool_sv(interp, v))
        interp.ctx.ghost.setdefault("used_contracts", set()).add(c.name)
        return res


_parse_cache = {}


class _Implies(ast.NodeTransformer):
    """implies(a, b) is a short-circuit form: (not a) or b."""

    def visit_Call(self, node):
        self.generic_visit(node)
        if isinstance(node.func, ast.Name) and node.func.id == "implies" and len(node.args) == 2:
            new = ast.BoolOp(op=ast.Or(), values=[ast.UnaryOp(op=ast.Not(), operand=node.args[0]), node.args[1]])
            return ast.copy_location(new, node)
        return node


def _parse(text):
    if text not in _parse_cache:
        tree = ast.parse(text.strip(), mode="eval")
        tree = ast.fix_missing_locations(_Implies().visit(tree))
        _parse_cache[text] = tree.body
    return _parse_cache[text]


# =============================================================================== concretisation
class Concretizer:
    """Turn symbolic inputs + a z3 model into native Python inputs (for replay on the real code)."""

    def __init__(self, interp, model):
        self.interp = interp
        self.model = model
        self.memo = {}
        self.env_sym = {}
        self.env_symi = {}
        self.failed = None

    def ev(self, z):
        return self.model.eval(z, model_completion=True)

    def scalar(self, v: SV):
        r = self.ev(v.z)
        if v.kind == "int":
            return r.as_long()
        if v.kind == "bool":
            return z3.is_true(r)
        if v.kind == "str":
            return r.as_string()
        if v.kind == "real":
            if z3.is_algebraic_value(r):
                r = r.approx(20)
            fr = fractions.Fraction(r.numerator_as_long(), r.denominator_as_long())
            return float(fr)
        if v.kind == "ref":
            return v.choices[r.as_long()]
        raise EngineError("scalar kind")

    def conc(self, v):
        v = self.interp.resolve(v)
        if isinstance(v, SV):
            return self.scalar(v)
        if isinstance(v, SLazy):
            if id(v) in self.memo:
                return self.memo[id(v)]
            r = self.lazy(v)
            self.memo[id(v)] = r
            return r
        if isinstance(v, SObj):
            if id(v) in self.memo:
                return self.memo[id(v)]
            r = self.sobj(v)
            self.memo[id(v)] = r
            return r
        if isinstance(v, list):
            return [self.conc(x) for x in v]
        if isinstance(v, tuple):
            return tuple(self.conc(x) for x in v)
        if isinstance(v, dict):
            return {self.conc(k): self.conc(x) for k, x in v.items()}
        if isinstance(v, Opaque):
            raise EngineError("opaque value cannot be concretised")
        if isinstance(v, types.SimpleNamespace) or (
            hasattr(v, "__dict__") and type(v).__module__.startswith("contracts") and not isinstance(v, type)
        ):
            if id(v) in self.memo:
                return self.memo[id(v)]
            if is_symbolic(list(vars(v).values())):
                new = type(v).__new__(type(v))
                self.memo[id(v)] = new
                for k, x in vars(v).items():
                    setattr(new, k, self.conc(x))
                return new
            return v
        if isinstance(v, models.SList):
            return v.concretize(self)
        return v

    def lazy(self, lz):
        prefer = self.interp.registry.concretize_pref if hasattr(self.interp.registry, "concretize_pref") else None
        if prefer is not None:
            r = prefer(self, lz)
            if r is not NotImplemented:
                return r
        raise EngineError(f"cannot concretise unresolved lazy {lz.name}")

    def sobj(self, so):
        cls = so.cls
        if issubclass(cls, tuple) and hasattr(cls, "_fields"):
            return cls(**{k: self.conc(so.fields[k]) for k in cls._fields})
        if issubclass(cls, BaseException):
            return cls(*[self.conc(a) for a in so.fields.get("args", ())])
        # materialise all declared fields
        shapes = self.interp.registry.shapes
        for klass in cls.__mro__:
            for name in shapes.get(klass, {}):
                if name not in so.fields:
                    try:
                        self.interp.field(so, name)
                    except PathAbort:
                        pass
        obj = cls.__new__(cls)
        for k, v in so.fields.items():
            object.__setattr__(obj, k, self.conc(v))
        return obj


# =============================================================================== verification
class VC:
    def __init__(self, contract, kind, clause, status, backend, path, time_s, detail=None):
        self.contract = contract
        self.kind = kind
        self.clause = clause
        self.status = status  # proved | refuted | unknown | error
        self.backend = backend
        self.path = path
        self.time_s = time_s
        self.detail = detail or {}

    def to_json(self):
        return dict(
            contract=self.contract,
            kind=self.kind,
            clause=self.clause,
            status=self.status,
            backend=self.backend,
            path=self.path,
            time_s=round(self.time_s, 4),
            **{k: v for k, v in self.detail.items() if k in ("replay", "reason", "smt2", "model")},
        )


def _env_for(reg, c, interp, args):
    env = Env(globs=reg.spec_globals)
    for k, v in args.items():
        env.set(k, v)
    return env


def verify(c: Contract, reg: Registry, want_smt_sample=False):
    """Verify one function against its contract. Returns (vcs, stats)."""
    vcs = []
    stats = dict(paths=0, normal=0, raised=0, infeasible=0, notes=set(), bounds=set(), used_contracts=set(), smt=None)
    fn = c.fn

    def run_one(ctx):
        interp = Interp(ctx, reg)
        interp.inline_only.add(fn)
        for f in c.inline:
            interp.inline_only.add(f)
        symenv = ctx.ghost.setdefault("symenv", models.SymEnv())
        args = {}
        for name, t in c.ghosts.items():
            ctx.ghost[name] = t.make(interp, name)
        for name, t in c.params.items():
            args[name] = t.make(interp, name)
        ctx.inputs = args
        env = _env_for(reg, c, interp, args)
        env.set("env", symenv)
        for name in c.ghosts:
            env.set(name, ctx.ghost[name])
        env.set("ghost", models.BuiltinModel(lambda n: ctx.ghost[n]))
        # snapshot of mutable inputs for old(...)
        for r in c.requires:
            v = interp.eval(_parse(r), env)
            ctx.assume(models.as_bool_sv(interp, v))
        if ctx.check() == z3.unsat:
            raise PathAbort()
        outcome = None
        try:
            if getattr(fn, "is_fragment", False):
                fargs = [interp.eval(_parse(a), env) for a in c.call] if c.call is not None else list(args.values())
                res = interp.call(fn.closure(), fargs, {})
            elif c.call is not None:
                res = interp.run_function(fn, [interp.eval(_parse(a), env) for a in c.call], {})
            elif isinstance(fn, Closure):
                res = interp.call(fn, list(args.values()), {})
            else:
                res = interp.run_function(fn, list(args.values()), {}) if not c.params_kw else interp.run_function(
                    fn, [], dict(args)
                )
            outcome = ("return", res)
        except PyRaise as pr:
            outcome = ("raise", pr)
        return interp, env, outcome

    c.params_kw = getattr(c, "params_kw", False)
    path_id = 0
    t_start = time.time()
    try:
        for ctx, (st, payload) in explore(run_one, max_paths=c.max_paths):
            stats["paths"] += 1
            if st == "infeasible":
                stats["infeasible"] += 1
                continue
            interp, env, outcome = payload
            stats["notes"].update(ctx.notes)
            stats["bounds"].update(ctx.ghost.get("structural_bounds", ()))
            stats["used_contracts"].update(ctx.ghost.get("used_contracts", ()))
            pid = "".join(str(d[0]) for d in ctx.decisions) or "-"
            # obligations collected along the path (callee requires)
            for ob in ctx.obligations:
                vcs.append(
                    VC(c.name, ob["kind"], f"{ob['callee']}: {ob['clause']}", ob["status"], "z3", pid, 0.0,
                       dict(reason=str(ob.get("model"))[:400]))
                )
            if outcome[0] == "raise":
                stats["raised"] += 1
                if c.raises is None:
                    continue
                clauses = c.raises
                env.set("exc", outcome[1].exc)
            else:
                stats["normal"] += 1
                clauses = c.ensures
                env.set("result", outcome[1])
            for i, text in enumerate(clauses):
                t0 = time.time()
                # evaluating a clause may itself fork (lazy objects): do it in a sub-exploration
                vcs.extend(_check_clause(c, reg, interp, ctx, env, text, pid, want_smt_sample, stats))
    except Budget as e:
        vcs.append(VC(c.name, "engine", "path budget", "unknown", "-", "-", 0.0, dict(reason=str(e))))
    except EngineError as e:
        vcs.append(
            VC(c.name, "engine", "interpreter", "unknown", "-", "-", 0.0,
               dict(reason=f"{type(e).__name__}: {e}", tb=traceback.format_exc()[-1500:]))
        )
    stats["time_s"] = time.time() - t_start
    return vcs, stats


def _check_clause(c, reg, interp, ctx, env, text, pid, want_smt, stats):
    """Check one ensures clause on the current path. Forks inside the clause are explored by replay
    of the whole path (the decisions extend ctx.decisions, so the outer DFS enumerates them)."""
    t0 = time.time()
    out = []
    try:
        v = interp.eval(_parse(text), env)
        z = models.as_bool_sv(interp, v)
    except PyRaise as pr:
        out.append(VC(c.name, "ensures", text, "refuted", "eval", pid, time.time() - t0,
                      dict(reason=f"clause raised {pr.cls.__name__}: {pr.exc}", ctx=ctx, interp=interp)))
        return out
    if z is True:
        out.append(VC(c.name, "ensures", text, "proved", "eval", pid, time.time() - t0))
        return out
    if z is False:
        # concretely false on a feasible path: get any model of the path condition
        status, model = ctx.valid(z3.BoolVal(False))
        out.append(VC(c.name, "ensures", text, "refuted" if status == "refuted" else "unknown", "z3", pid,
                      time.time() - t0, dict(model=model, ctx=ctx, interp=interp)))
        return out
    if want_smt and stats.get("smt") is None:
        s = z3.Solver()
        for p in ctx.pc:
            s.add(p)
        s.add(z3.Not(z.z))
        stats["smt"] = dict(contract=c.name, clause=text, path=pid, smt2=s.to_smt2()[:3000])
    status, info = ctx.valid(z.z)
    backend = "z3"
    if status == "unknown":
        from .solve import cvc5_check

        r = cvc5_check(ctx.pc + [z3.Not(z.z)])
        if r == "unsat":
            status, backend = "proved", "cvc5"
    detail = {}
    if status == "refuted":
        detail = dict(model=info, ctx=ctx, interp=interp)
    elif status == "unknown":
        detail = dict(reason=str(info))
    out.append(VC(c.name, "ensures", text, status, backend, pid, time.time() - t0, detail))
    return out


# =============================================================================== replay
def replay(c: Contract, reg: Registry, vc: VC):
    """Build native inputs from the countermodel, run the REAL function, evaluate the clause natively.

    returns ('violation', info) | ('not-reproduced', info) | ('no-input', info)
    """
    d = vc.detail
    model, ctx, interp = d.get("model"), d.get("ctx"), d.get("interp")
    if model is None or ctx is None:
        return "no-input", dict(reason=d.get("reason", "no model"))
    try:
        cz = Concretizer(interp, model)
        native = {k: cz.conc(v) for k, v in ctx.inputs.items()}
        cz.ghosts = {k: cz.conc(ctx.ghost[k]) for k in list(c.ghosts) + list(c.ghost_names) if k in ctx.ghost}
        if c.fix_native is not None:
            native = c.fix_native(native)
    except (EngineError, PathAbort, Exception) as e:  # noqa: BLE001
        return "no-input", dict(reason=f"inputs not constructible: {type(e).__name__}: {e}", model=str(model)[:2000])
    return run_native(c, reg, native, vc.clause, cz)


def run_native(c, reg, native, clause_text, cz=None):
    import copy

    info = dict(inputs={k: _show(v) for k, v in native.items()})
    nenv = models.NativeEnv(cz.env_sym if cz else None, cz.env_symi if cz else None,
                            cz.model if cz else None, cz.interp.ctx.ghost.get("symenv") if cz else None)
    call_args = copy.deepcopy(native) if c.deepcopy_inputs else native
    ghosts = getattr(cz, "ghosts", {}) if cz else {}
    info["ghosts"] = {k: _show(v) for k, v in ghosts.items()}
    import contextlib

    cm = c.native_patch(ghosts) if c.native_patch else contextlib.nullcontext()
    try:
        fn = c.fn
        with cm:
            if getattr(fn, "is_fragment", False):
                _it = Interp(Ctx(), reg)
                _env = Env(globs=reg.spec_globals)
                for k, v in call_args.items():
                    _env.set(k, v)
                fargs = [_it.eval(_parse(a), _env) for a in c.call] if c.call is not None else list(call_args.values())
                try:
                    res = _it.call(fn.closure(), fargs, {})
                except PyRaise as pr:
                    raise (pr.exc if isinstance(pr.exc, BaseException) else RuntimeError(str(pr.exc)))
            elif c.call is not None:
                _it = Interp(Ctx(), reg)
                _env = Env(globs=reg.spec_globals)
                for k, v in call_args.items():
                    _env.set(k, v)
                res = fn(*[_it.eval(_parse(a), _env) for a in c.call])
            else:
                res = fn(*call_args.values())
        info["result"] = _show(res)
        raised = None
    except Exception as e:  # noqa: BLE001
        raised = e
        info["raised"] = f"{type(e).__name__}: {e}"
    if raised is not None:
        if c.raises is None:
            return "not-reproduced", dict(info, reason="native run rejects the input (raise); clause not applicable")
        return "not-reproduced", info
    # evaluate the clause natively with the same interpreter machinery on concrete values
    ictx = Ctx()
    it = Interp(ictx, reg)
    env = Env(globs=reg.spec_globals)
    for k, v in native.items():
        env.set(k, v)
    env.set("env", nenv)
    env.set("result", res)
    for k, v in ghosts.items():
        env.set(k, v)
    env.set("ghost", models.BuiltinModel(lambda n: ghosts[n]))
    try:
        v = it.eval(_parse(clause_text), env)
    except PyRaise as pr:
        return "violation", dict(info, clause=clause_text, clause_value=f"raised {pr.cls.__name__}: {pr.exc}")
    except EngineError as e:
        return "no-input", dict(info, reason=f"clause not evaluable natively: {e}")
    info["clause"] = clause_text
    info["clause_value"] = repr(v)
    if v is True or (not isinstance(v, SV) and bool(v)):
        return "not-reproduced", info
    if isinstance(v, SV):
        return "no-input", dict(info, reason="clause stayed symbolic")
    return "violation", info


Contract.deepcopy_inputs = False


def _show(v, depth=0):
    try:
        import ffcx.codegeneration.lnodes as L

        if isinstance(v, L.LNode):
            return _show_lnode(v)
    except Exception:  # noqa: BLE001
        pass
    if isinstance(v, list | tuple) and depth < 4:
        return [_show(x, depth + 1) for x in v]
    if isinstance(v, dict) and depth < 4:
        return {str(k): _show(x, depth + 1) for k, x in v.items()}
    r = repr(v)
    return r if len(r) < 400 else r[:400] + "..."


def _show_lnode(v):
    import ffcx.codegeneration.lnodes as L

    fields = {}
    for k, x in vars(v).items():
        if isinstance(x, L.LNode):
            fields[k] = _show_lnode(x)
        elif isinstance(x, list | tuple):
            fields[k] = [_show_lnode(y) if isinstance(y, L.LNode) else repr(y) for y in x]
        else:
            fields[k] = repr(x)
    return {type(v).__name__: fields}


# =============================================================================== fragments
def fragment(target, first, last=None, params=(), returns="None", name=None):
    """A contiguous statement range inside a real function, as a callable for E1.

    target: 'path/to/file.py::qualname'; the block is the statement list (at any nesting depth) that contains a
    statement whose source starts with `first`; it extends to the statement starting with `last` (inclusive) or is
    that single statement. Free variables become parameters. Re-read from disk (or the in-memory override) on every
    call, so the verified text is the current text of the repository."""
    import os

    path, qual = target.split("::")
    full = path if os.path.isabs(path) else os.path.join(os.environ.get("FFCX_REPO", "/repo"), path)
    modname = path[:-3].replace("/", ".")
    mod = importlib.import_module(modname)

    class Frag:
        __name__ = name or f"{qual}#fragment"
        __qualname__ = __name__
        is_fragment = True
        file = full

        def node(self):
            from .interp import file_ast, find_def

            fn = find_def(full, qual)
            if fn is None:
                raise EngineError(f"anchor missing: {qual} in {path}")
            block = None
            for n in ast.walk(fn):
                for field in ("body", "orelse", "finalbody"):
                    stmts = getattr(n, field, None)
                    if isinstance(stmts, list):
                        for i, st in enumerate(stmts):
                            if isinstance(st, ast.stmt) and ast.unparse(st).startswith(first):
                                if block is not None:
                                    raise EngineError(f"anchor ambiguous: {first!r} in {qual}")
                                block = (stmts, i)
            if block is None:
                raise EngineError(f"anchor missing: statement starting with {first!r} in {qual}")
            stmts, i = block
            j = i
            if last is not None:
                j = None
                for k in range(i, len(stmts)):
                    if ast.unparse(stmts[k]).startswith(last):
                        j = k
                        break
                if j is None:
                    raise EngineError(f"anchor missing: statement starting with {last!r} after {first!r} in {qual}")
            body = list(stmts[i : j + 1]) + [ast.Return(value=ast.parse(returns, mode="eval").body)]
            fd = ast.FunctionDef(
                name="fragment", args=ast.arguments(posonlyargs=[], args=[ast.arg(arg=p) for p in params], kwonlyargs=[],
                                                    kw_defaults=[], defaults=[]), body=body, decorator_list=[], type_params=[])
            ast.fix_missing_locations(fd)
            return fd

        def closure(self):
            clo = Closure(self.node(), Env(globs=vars(mod)), self.__name__, self.__name__)
            clo.defaults = ([], {})
            return clo

    return Frag()
