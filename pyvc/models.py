"""Models of builtins / numpy helpers on symbolic values, and symbolic containers."""

from __future__ import annotations

import ast
import builtins
import fractions
import numbers
import types

import numpy as np
import z3

from .values import (
    SV,
    EngineError,
    Opaque,
    SLazy,
    SObj,
    SymbolicMarker,
    Unsupported,
    fresh_name,
    is_symbolic,
    kind_of,
    to_z3,
)


class BuiltinModel:
    def __init__(self, f):
        self.f = f


class Model:
    def __init__(self, f, always=False):
        self.f = f
        self.always = always


_MODELS: dict = {}


def model(target, always=False):
    def deco(f):
        _MODELS[_key(target)] = Model(f, always)
        return f

    return deco


def _key(fn):
    try:
        hash(fn)
        return fn
    except TypeError:
        return id(fn)


def lookup(fn):
    try:
        return _MODELS.get(fn)
    except TypeError:
        return None


# ---------------------------------------------------------------------------- booleans
def and_(a, b):
    if a is True:
        return b
    if b is True:
        return a
    if a is False or b is False:
        return False
    return SV(z3.And(to_z3(a), to_z3(b)), "bool")


def or_(a, b):
    if a is False:
        return b
    if b is False:
        return a
    if a is True or b is True:
        return True
    return SV(z3.Or(to_z3(a), to_z3(b)), "bool")


def not_(a):
    if isinstance(a, SV):
        return SV(z3.Not(a.z), "bool")
    return not a


def as_bool_sv(interp, v):
    """Truth value as python bool or SV bool, without branching."""
    if isinstance(v, bool):
        return v
    if isinstance(v, SV):
        if v.kind == "bool":
            return v
        if v.kind in ("int", "real"):
            return SV(v.z != 0, "bool")
        if v.kind == "str":
            return SV(z3.Length(v.z) > 0, "bool")
    return interp.truth(v)


# ---------------------------------------------------------------------------- scalars
def _num_kinds(a, b):
    ka, kb = kind_of(a), kind_of(b)
    if ka == "bool":
        ka = "int"
    if kb == "bool":
        kb = "int"
    return ka, kb


def sv_binop(interp, op, a, b):
    ka, kb = kind_of(a), kind_of(b)
    if ka == "str" or kb == "str":
        if op is ast.Add and ka == "str" and kb == "str":
            return SV(z3.Concat(to_z3(a), to_z3(b)), "str")
        if op is ast.Mod and ka == "str":
            return str_format_percent(interp, a, b)
        raise Unsupported(f"string op {op.__name__}")
    if ka is None or kb is None:
        if isinstance(a, list | tuple) and op is ast.Mult:
            raise Unsupported("sequence repetition by a symbolic count")
        raise Unsupported(f"arithmetic between {type(a).__name__} and {type(b).__name__}")
    ka, kb = _num_kinds(a, b)
    if ka == "ref" or kb == "ref":
        raise Unsupported("arithmetic on ref value")
    real = ka == "real" or kb == "real"
    want = "real" if real else "int"
    x, y = to_z3(a, want), to_z3(b, want)
    if op is ast.Add:
        return SV(x + y, want)
    if op is ast.Sub:
        return SV(x - y, want)
    if op is ast.Mult:
        return SV(x * y, want)
    if op is ast.Div:
        xr, yr = to_z3(a, "real"), to_z3(b, "real")
        if not interp.ctx.feasible(yr != 0) and True:
            from .interp import PyRaise

            raise PyRaise(ZeroDivisionError())
        if interp.ctx.feasible(yr == 0):
            from .interp import PyRaise

            if not interp.ctx.branch(SV(yr != 0, "bool"), "div-nonzero"):
                raise PyRaise(ZeroDivisionError())
        return SV(xr / yr, "real")
    if op in (ast.FloorDiv, ast.Mod):
        if real:
            raise Unsupported("floor division / modulo on reals")
        from .interp import PyRaise

        if not interp.ctx.branch(SV(y != 0, "bool"), "div-nonzero"):
            raise PyRaise(ZeroDivisionError())
        # python floor semantics; z3 div/mod are euclidean: identical for y > 0
        if not interp.ctx.branch(SV(y > 0, "bool"), "div-positive"):
            q = -((-x) / (-y)) if False else None
            raise Unsupported("floor division by a possibly negative divisor")
        return SV(x / y if op is ast.FloorDiv else x % y, "int")
    if op is ast.Pow:
        if isinstance(b, int) and 0 <= b <= 4:
            r = z3.IntVal(1) if want == "int" else z3.RealVal(1)
            for _ in range(b):
                r = r * x
            return SV(r, want)
        raise Unsupported("symbolic power")
    raise Unsupported(f"numeric op {op.__name__}")


def sv_compare(interp, t, a, b):
    ka, kb = kind_of(a), kind_of(b)
    if (ka == "str") != (kb == "str"):
        if t is ast.Eq:
            return False
        if t is ast.NotEq:
            return True
        from .interp import PyRaise

        raise PyRaise(TypeError("str vs number"))
    if ka == "str":
        x, y = to_z3(a), to_z3(b)
        if t is ast.Eq:
            return SV(x == y, "bool")
        if t is ast.NotEq:
            return SV(x != y, "bool")
        raise Unsupported("string ordering")
    if ka == "bool" and kb == "bool" and t in (ast.Eq, ast.NotEq):
        x, y = to_z3(a), to_z3(b)
        return SV(x == y if t is ast.Eq else x != y, "bool")
    ka, kb = _num_kinds(a, b)
    want = "real" if "real" in (ka, kb) else "int"
    x, y = to_z3(a, want), to_z3(b, want)
    z = {
        ast.Eq: lambda: x == y,
        ast.NotEq: lambda: x != y,
        ast.Lt: lambda: x < y,
        ast.LtE: lambda: x <= y,
        ast.Gt: lambda: x > y,
        ast.GtE: lambda: x >= y,
    }[t]()
    return SV(z, "bool")


def mk_ref(ctx, choices, name=None):
    z = z3.Int(name or fresh_name("ref"))
    ctx.assume(z3.And(z >= 0, z < len(choices)))
    return SV(z, "ref", choices=list(choices))


def ref_compare(interp, t, a, b):
    """== between a ref value and a concrete object or another ref over the same choice list."""
    if isinstance(b, SV) and b.kind == "ref" and not (isinstance(a, SV) and a.kind == "ref"):
        a, b = b, a
    if isinstance(b, SV) and b.kind == "ref":
        if a.choices is b.choices or a.choices == b.choices:
            z = a.z == b.z
        else:
            terms = [
                z3.And(a.z == i, b.z == j)
                for i, x in enumerate(a.choices)
                for j, y in enumerate(b.choices)
                if _same(x, y)
            ]
            z = z3.Or(*terms) if terms else z3.BoolVal(False)
    elif isinstance(b, SV):
        terms = []
        for i, x in enumerate(a.choices):
            if kind_of(x) in ("int", "real", "str", "bool") and kind_of(x) == (b.kind if b.kind != "bool" else "bool"):
                terms.append(z3.And(a.z == i, to_z3(x) == b.z))
        z = z3.Or(*terms) if terms else z3.BoolVal(False)
    else:
        idx = [i for i, x in enumerate(a.choices) if _same(x, b)]
        z = z3.Or(*[a.z == i for i in idx]) if idx else z3.BoolVal(False)
    if t is ast.NotEq:
        z = z3.Not(z)
    return SV(z3.simplify(z), "bool")


def _same(x, y):
    try:
        if x is y:
            return True
        if isinstance(x, int | float | str | bool | type(None) | tuple) and isinstance(
            y, int | float | str | bool | type(None) | tuple
        ):
            return type(x) is type(y) and x == y
        return False
    except Exception:  # noqa: BLE001
        return False


def concretize_ref(interp, v, label="ref"):
    """Fix a ref value to one of its choices (k-way decision)."""
    feas = [i for i in range(len(v.choices)) if interp.ctx.feasible(v.z == i)]
    if not feas:
        from .ctx import PathAbort

        raise PathAbort()
    k = interp.ctx.decide(len(feas), label)
    interp.ctx.assume(v.z == feas[k])
    return v.choices[feas[k]]


def contains(interp, container, x):
    container = interp.resolve(container)
    if isinstance(container, SList):
        return container.contains(interp, x)
    if isinstance(container, SMap):
        return container.contains(interp, x)
    if isinstance(container, SV):
        if container.kind == "str" or isinstance(x, SV) and x.kind == "str":
            return SV(z3.Contains(to_z3(container), to_z3(x)), "bool")
        raise Unsupported("'in' on symbolic scalar")
    if isinstance(container, str) and isinstance(x, SV):
        return SV(z3.Contains(to_z3(container), to_z3(x)), "bool")
    if isinstance(container, dict):
        if not is_symbolic(x):
            return x in container
        keys = list(container.keys())
    elif isinstance(container, list | tuple | set | frozenset):
        keys = list(container)
    elif isinstance(container, Opaque):
        interp.ctx.notes.append("havoc 'in' on opaque")
        return SV(z3.Bool(fresh_name("havoc_in")), "bool", havoc=True)
    else:
        if is_symbolic(x):
            raise Unsupported(f"'in' with symbolic element on {type(container).__name__}")
        return x in container
    acc = False
    for k in keys:
        e = interp.compare(ast.Eq(), k, x)
        acc = or_(acc, e)
        if acc is True:
            return True
    return acc


def select(interp, seq, idx: SV):
    """seq[idx] with a concrete sequence and symbolic int index: fork over feasible positions."""
    n = len(seq)
    kinds = {kind_of(x) for x in seq}
    if n and len(kinds) == 1 and next(iter(kinds)) in ("int", "real", "str", "bool"):
        # scalar elements: an if-then-else chain instead of one path per position
        k = next(iter(kinds))
        inb = z3.And(idx.z >= 0, idx.z < n)
        if interp.ctx.feasible(z3.Not(z3.And(idx.z >= -n, idx.z < n))):
            if not interp.ctx.branch(SV(z3.And(idx.z >= -n, idx.z < n), "bool"), "select-inrange"):
                from .interp import PyRaise

                raise PyRaise(IndexError("index out of range"))
        pos = z3.If(idx.z < 0, idx.z + n, idx.z)
        acc = to_z3(seq[n - 1])
        for i in range(n - 2, -1, -1):
            acc = z3.If(pos == i, to_z3(seq[i]), acc)
        return SV(acc, k)
    feas = []
    for i in range(-n, n):
        if interp.ctx.feasible(idx.z == i):
            feas.append(i)
    oob = interp.ctx.feasible(z3.Or(idx.z >= n, idx.z < -n))
    total = len(feas) + (1 if oob else 0)
    k = interp.ctx.decide(total, "select")
    if k < len(feas):
        interp.ctx.assume(idx.z == feas[k])
        return seq[feas[k]]
    from .interp import PyRaise

    interp.ctx.assume(z3.Or(idx.z >= n, idx.z < -n))
    raise PyRaise(IndexError("index out of range"))


def dict_select(interp, d, key: SV):
    obj = concretize_ref(interp, key, "dict-key")
    from .interp import PyRaise

    try:
        return d[obj]
    except KeyError as e:
        raise PyRaise(e)


def symbolic_slice(interp, obj, sl):
    raise Unsupported("slice with symbolic bounds on a concrete sequence")


# ---------------------------------------------------------------------------- strings
def format_value(interp, x, conversion, spec):
    x = interp.resolve(x)
    if not is_symbolic(x) and not is_symbolic(spec):
        if conversion == ord("r"):
            x = repr(x)
        elif conversion == ord("s"):
            x = str(x)
        elif conversion == ord("a"):
            x = ascii(x)
        return format(x, spec or "")
    if isinstance(x, SV):
        if x.kind == "str" and not spec:
            return x
        if x.kind == "int" and (not spec or spec == "d"):
            return int_to_str(x)
        if x.kind == "ref":
            obj = concretize_ref(interp, x, "fmt-ref")
            return format_value(interp, obj, conversion, spec)
    # opaque text atom: an uninterpreted string
    interp.ctx.notes.append(f"opaque text for format of {x!r}")
    return SV(z3.String(fresh_name("fmt")), "str", havoc=True)


def int_to_str(x: SV):
    z = x.z
    return SV(z3.If(z >= 0, z3.IntToStr(z), z3.Concat(z3.StringVal("-"), z3.IntToStr(-z))), "str")


def concat_str(interp, parts):
    if all(isinstance(p, str) for p in parts):
        return "".join(parts)
    zs = [to_z3(p) for p in parts if not (isinstance(p, str) and p == "")]
    if len(zs) == 1:
        return SV(zs[0], "str")
    return SV(z3.Concat(*zs), "str")


def str_format_percent(interp, a, b):
    raise Unsupported("% formatting with symbolic operands")


def sv_attr(interp, obj: SV, name):
    if obj.kind == "str":
        return BuiltinModel(lambda *a, **k: _str_method(interp, obj, name, *a, **k))
    if obj.kind == "ref":
        o = concretize_ref(interp, obj, f"attr-{name}")
        return interp.getattr(o, name)
    if obj.kind in ("int", "real") and name in ("real",):
        return obj
    if obj.kind in ("int", "real") and name in ("imag",):
        return 0
    raise Unsupported(f"attribute {name} of symbolic {obj.kind}")


def _str_method(interp, s, name, *args):
    if name == "join":
        items = interp.iterate(args[0])
        parts = []
        for i, it in enumerate(items):
            if i:
                parts.append(s)
            parts.append(it)
        return concat_str(interp, parts) if parts else ""
    z = to_z3(s)
    if name == "startswith":
        return SV(z3.PrefixOf(to_z3(args[0]), z), "bool")
    if name == "endswith":
        return SV(z3.SuffixOf(to_z3(args[0]), z), "bool")
    if name == "replace":
        return SV(z3_replace_all(z, to_z3(args[0]), to_z3(args[1])), "str")
    if name == "join":
        items = interp.iterate(args[0])
        parts = []
        for i, it in enumerate(items):
            if i:
                parts.append(s)
            parts.append(it)
        return concat_str(interp, parts) if parts else ""
    if name in ("isalnum", "isidentifier", "isdigit", "isalpha", "lower", "upper", "strip"):
        interp.ctx.notes.append(f"havoc str.{name}")
        if name in ("lower", "upper", "strip"):
            return SV(z3.String(fresh_name(name)), "str", havoc=True)
        return SV(z3.Bool(fresh_name(name)), "bool", havoc=True)
    if name == "format":
        raise Unsupported("str.format on symbolic")
    raise Unsupported(f"str.{name} on symbolic string")


def z3_replace_all(s, a, b):
    f = z3.Function("str_replace_all", z3.StringSort(), z3.StringSort(), z3.StringSort(), z3.StringSort())
    return f(s, a, b)  # uninterpreted: only identifier-shape assertions consume it


def sv_isinstance(v: SV, classes):
    if not isinstance(classes, tuple):
        classes = (classes,)
    proto = {
        "int": 0,
        "real": 0.5,
        "bool": True,
        "str": "",
    }.get(v.kind)
    if v.kind == "ref":
        raise Unsupported("isinstance on ref value")
    # np.number: numpy scalars are modelled as python scalars of the same kind
    for c in classes:
        if c is np.number or c is np.integer:
            if v.kind == "int":
                return True
            continue
        if c is np.floating and v.kind == "real":
            return True
        if isinstance(proto, c):
            return True
    return False


# ---------------------------------------------------------------------------- containers
class SList(SymbolicMarker):
    """Symbolic-length list (list algebra).  Filled in by pyvc.slist."""

    length: SV

    def concrete_items(self, interp):
        raise Unsupported("iteration over a symbolic-length list")


class SMap:
    pass


def slist_binop(interp, op, a, b):
    from . import slist

    return slist.binop(interp, op, a, b)


class SymEnv(SymbolicMarker):
    """The arbitrary environment over which `ev` is evaluated: uninterpreted functions."""

    def __init__(self, tag="env"):
        self.tag = tag
        self.f_sym = z3.Function(f"{tag}_sym", z3.StringSort(), z3.RealSort())
        self.f_symi = z3.Function(f"{tag}_symi", z3.StringSort(), z3.IntSort())
        self._mem = {}

    def sym(self, name):
        return SV(self.f_sym(to_z3(name)), "real")

    def symi(self, name):
        return SV(self.f_symi(to_z3(name)), "int")

    def _memf(self, n, real):
        key = (n, real)
        if key not in self._mem:
            self._mem[key] = z3.Function(
                f"{self.tag}_mem{'r' if real else 'i'}{n}",
                z3.StringSort(),
                *([z3.RealSort()] * n),
                z3.RealSort() if real else z3.IntSort(),
            )
        return self._mem[key]

    def mem(self, name, idxs):
        idxs = list(idxs)
        return SV(self._memf(len(idxs), True)(to_z3(name), *[to_z3(i, "real") for i in idxs]), "real")

    def memi(self, name, idxs):
        idxs = list(idxs)
        return SV(self._memf(len(idxs), False)(to_z3(name), *[to_z3(i, "real") for i in idxs]), "int")

    def div(self, a, b):
        return SV(to_z3(a, "real") / to_z3(b, "real"), "real")

    def fun(self, fname, args):
        args = list(args)
        f = z3.Function(f"{self.tag}_fun{len(args)}", z3.StringSort(), *([z3.RealSort()] * len(args)), z3.RealSort())
        return SV(f(to_z3(fname), *[to_z3(a, "real") for a in args]), "real")


class NativeEnv:
    """Concrete environment for replay: the model's interpretation of the uninterpreted environment
    functions, with overrides for the stand-in symbols of unresolved operands."""

    def __init__(self, sym=None, symi=None, model=None, symenv=None):
        self._sym = dict(sym or {})
        self._symi = dict(symi or {})
        self.model = model
        self.symenv = symenv

    @staticmethod
    def _default(key, integer):
        import zlib

        h = zlib.crc32(repr(key).encode())
        return (h % 7) + 2 if integer else ((h % 1000) / 128.0 + 0.5)

    def _from_model(self, sv):
        r = self.model.eval(sv.z, model_completion=True)
        if sv.kind == "int":
            return r.as_long()
        if z3.is_algebraic_value(r):
            r = r.approx(20)
        return float(fractions.Fraction(r.numerator_as_long(), r.denominator_as_long()))

    def sym(self, name):
        if name in self._sym:
            return self._sym[name]
        if self.model is not None:
            return self._from_model(self.symenv.sym(name))
        return self._default(("s", name), False)

    def symi(self, name):
        if name in self._symi:
            return self._symi[name]
        if self.model is not None:
            return self._from_model(self.symenv.symi(name))
        return self._default(("si", name), True)

    def mem(self, name, idxs):
        if self.model is not None:
            return self._from_model(self.symenv.mem(name, list(idxs)))
        return self._default(("m", name, tuple(idxs)), False)

    def memi(self, name, idxs):
        if self.model is not None:
            return self._from_model(self.symenv.memi(name, list(idxs)))
        return self._default(("mi", name, tuple(idxs)), True)

    def div(self, a, b):
        if b == 0:
            if self.model is not None:
                return self._from_model(self.symenv.div(a, b))
            return 0.0
        return a / b

    def fun(self, fname, args):
        if self.model is not None:
            return self._from_model(self.symenv.fun(fname, list(args)))
        return self._default(("f", fname, tuple(args)), False)


_SHALLOW_FUNCS = {len, zip, enumerate, reversed, list, tuple, iter, id, range, dict}
_SHALLOW_METHODS = {
    "append",
    "extend",
    "insert",
    "copy",
    "pop",
    "items",
    "keys",
    "values",
    "get",
    "update",
    "setdefault",
    "clear",
    "reverse",
}


def shallow_safe(fn, args, kwargs):
    if fn in _SHALLOW_FUNCS:
        if fn is range:
            return not is_symbolic(args)
        if fn is dict:
            return True
        return all(isinstance(a, list | tuple | dict | range | zip | enumerate | reversed) for a in args)
    if isinstance(fn, types.BuiltinMethodType | types.MethodWrapperType):
        recv = getattr(fn, "__self__", None)
        if isinstance(recv, list | tuple | dict) and fn.__name__ in _SHALLOW_METHODS:
            if isinstance(recv, dict) and fn.__name__ in ("get", "pop", "setdefault"):
                return not isinstance(args[0], SV)
            if fn.__name__ in ("pop", "insert") and isinstance(recv, list):
                return not (args and isinstance(args[0], SV))
            return True
    return False


# ---------------------------------------------------------------------------- builtin models
@model(len)
def _len(interp, x):
    x = interp.resolve(x)
    if isinstance(x, SList):
        return x.length
    if isinstance(x, SV) and x.kind == "str":
        return SV(z3.Length(x.z), "int")
    if isinstance(x, SObj | SLazy):
        from .interp import _lookup

        cls = x.cls if isinstance(x, SObj) else x.base
        m = _lookup(cls, "__len__")
        if m is None:
            from .interp import PyRaise

            raise PyRaise(TypeError("no len"))
        return interp.call(m, [x], {})
    if isinstance(x, Opaque):
        interp.ctx.notes.append("havoc len")
        v = SV(z3.Int(fresh_name("len")), "int", havoc=True)
        interp.ctx.assume(v.z >= 0)
        return v
    return len(x)


@model(sum)
def _sum(interp, xs, start=0):
    xs = interp.resolve(xs)
    if isinstance(xs, SList):
        return xs.sum(interp, start)
    acc = start
    for x in interp.iterate(xs):
        acc = interp.binop(ast.Add(), acc, x)
    return acc


@model(np.prod)
def _prod(interp, xs, dtype=None, **kw):
    acc = 1
    for x in interp.iterate(xs):
        acc = interp.binop(ast.Mult(), acc, x)
    return acc


@model(np.sum)
def _npsum(interp, xs, **kw):
    return _sum(interp, xs)


@model(all)
def _all(interp, xs):
    acc = True
    for x in interp.iterate(xs):
        acc = and_(acc, as_bool_sv(interp, x))
        if acc is False:
            return False
    return acc


@model(any)
def _any(interp, xs):
    acc = False
    for x in interp.iterate(xs):
        acc = or_(acc, as_bool_sv(interp, x))
        if acc is True:
            return True
    return acc


@model(abs)
def _abs(interp, x):
    if isinstance(x, SV):
        return SV(z3.If(x.z >= 0, x.z, -x.z), x.kind)
    raise Unsupported("abs")


def _minmax(interp, args, is_min):
    xs = interp.iterate(args[0]) if len(args) == 1 else list(args)
    acc = xs[0]
    for x in xs[1:]:
        c = interp.compare(ast.Lt() if is_min else ast.Gt(), x, acc)
        if isinstance(c, SV):
            k = "real" if "real" in (kind_of(x), kind_of(acc)) else "int"
            acc = SV(z3.If(c.z, to_z3(x, k), to_z3(acc, k)), k)
        elif c:
            acc = x
    return acc


@model(min)
def _min(interp, *args, **kw):
    if kw:
        raise Unsupported("min with key/default")
    return _minmax(interp, args, True)


@model(max)
def _max(interp, *args, **kw):
    if kw:
        raise Unsupported("max with key/default")
    return _minmax(interp, args, False)


@model(int)
def _int(interp, x=0, *a):
    if isinstance(x, SV):
        if x.kind == "int":
            return x
        if x.kind == "bool":
            return SV(to_z3(x, "int"), "int")
        if x.kind == "ref":
            return int(concretize_ref(interp, x, "int()"))
        raise Unsupported("int() of symbolic real/str")
    x = interp.resolve(x)
    if isinstance(x, SObj | SLazy):
        from .interp import _lookup

        cls = x.cls if isinstance(x, SObj) else interp.force(x).cls
        m = _lookup(cls, "__int__")
        if m is not None:
            return interp.call(m, [x], {})
        m = _lookup(cls, "__index__")
        if m is not None:
            return interp.call(m, [x], {})
        from .interp import PyRaise

        raise PyRaise(TypeError(f"int() argument must be a number, not {cls.__name__}"))
    raise Unsupported("int()")


@model(float)
def _float(interp, x=0.0):
    if isinstance(x, SV):
        if x.kind == "real":
            return x
        if x.kind in ("int", "bool"):
            return SV(to_z3(x, "real"), "real")
    x = interp.resolve(x)
    if isinstance(x, SObj | SLazy):
        from .interp import _lookup

        cls = x.cls if isinstance(x, SObj) else interp.force(x).cls
        m = _lookup(cls, "__float__")
        if m is not None:
            return interp.call(m, [x], {})
    raise Unsupported("float()")


@model(bool)
def _bool(interp, x=False):
    return as_bool_sv(interp, x)


@model(str)
def _str(interp, x=""):
    return format_value(interp, x, -1, None)


@model(repr)
def _repr(interp, x):
    return format_value(interp, x, ord("r"), None)


@model(sorted)
def _sorted(interp, xs, key=None, reverse=False):
    """sorted() of scalars: fresh outputs constrained to be a sorted permutation of the inputs."""
    xs = interp.iterate(xs)
    if key is not None:
        raise Unsupported("sorted() with key on symbolic elements")
    n = len(xs)
    sig = [SV(z3.Int(fresh_name("sortperm")), "int") for _ in range(n)]
    for s_ in sig:
        interp.ctx.assume(z3.And(s_.z >= 0, s_.z < n))
    if n > 1:
        interp.ctx.assume(z3.Distinct(*[s_.z for s_ in sig]))
    vals = [select(interp, xs, s_) for s_ in sig]
    for u, v in zip(vals, vals[1:]):
        interp.ctx.assume(to_z3(u) >= to_z3(v) if reverse else to_z3(u) <= to_z3(v))
    return vals


def list_index(interp, lst, x, *a):
    """list.index on scalars: position of the first equal element (ValueError if none)."""
    if a:
        raise Unsupported("list.index with start/stop")
    from .interp import PyRaise

    eqs = [as_bool_sv(interp, interp.compare(ast.Eq(), e, x)) for e in lst]
    none = True
    for e in eqs:
        none = and_(none, not_(e))
    if none is True or (isinstance(none, SV) and interp.ctx.branch(none, "index-notfound")):
        raise PyRaise(ValueError("x not in list"))
    acc = z3.IntVal(len(lst) - 1)
    for i in range(len(lst) - 2, -1, -1):
        e = eqs[i]
        acc = z3.If(to_z3(e), z3.IntVal(i), acc)
    return SV(z3.simplify(acc), "int")


def list_count(interp, lst, x):
    """list/tuple.count on scalars."""
    acc = 0
    for e in lst:
        eq = as_bool_sv(interp, interp.compare(ast.Eq(), e, x))
        if eq is True:
            acc = acc + 1 if not isinstance(acc, SV) else SV(acc.z + 1, "int")
        elif eq is False:
            continue
        else:
            one = z3.If(eq.z, z3.IntVal(1), z3.IntVal(0))
            acc = SV((acc.z if isinstance(acc, SV) else z3.IntVal(acc)) + one, "int")
    return acc


LIST_METHOD_MODELS = {"index": list_index, "count": list_count}


class SSet(list):
    """A set of symbolic scalars: a list of pairwise distinct representatives (distinctness decided per path)."""


def symbolic_set(interp, xs):
    out = SSet()
    for x in xs:
        dup = False
        for y in out:
            eq = as_bool_sv(interp, interp.compare(ast.Eq(), x, y))
            if eq is True or (isinstance(eq, SV) and interp.ctx.branch(eq, "set-dedup")):
                dup = True
                break
        if not dup:
            out.append(x)
    return out


@model(set)
def _set(interp, xs=()):
    return symbolic_set(interp, interp.iterate(xs))


@model(map)
def _map(interp, f, *its):
    seqs = [interp.iterate(i) for i in its]
    return [interp.call(f, list(t), {}) for t in zip(*seqs)]


@model(filter)
def _filter(interp, f, it):
    return [x for x in interp.iterate(it) if interp.truth(interp.call(f, [x], {}) if f is not None else x)]


@model(print, always=True)
def _print(interp, *a, **k):
    return None


@model(tuple)
def _tuple(interp, xs=()):
    return tuple(interp.iterate(xs))


@model(list)
def _list(interp, xs=()):
    return list(interp.iterate(xs))


@model(type)
def _type(interp, x):
    x = interp.resolve(x)
    if isinstance(x, SLazy):
        x = interp.force(x)
    if isinstance(x, SObj):
        return x.cls
    if isinstance(x, SV):
        return {"int": int, "real": float, "bool": bool, "str": str}[x.kind]
    raise Unsupported("type()")


@model(range)
def _range(interp, *args):
    raise Unsupported("range() with symbolic bounds (needs a loop contract)")


@model(np.asarray)
def _asarray(interp, x, *a, **k):
    return x


@model(np.array)
def _array(interp, x, *a, **k):
    return x


@model(np.isclose)
def _isclose(interp, a, b, rtol=1e-05, atol=1e-08, equal_nan=False):
    x, y = to_z3(a, "real"), to_z3(b, "real")
    d = z3.If(x - y >= 0, x - y, y - x)
    ay = z3.If(y >= 0, y, -y)
    return SV(d <= to_z3(atol, "real") + to_z3(rtol, "real") * ay, "bool")


@model(np.argsort)
def _argsort(interp, xs, *a, **k):
    """External contract: the result is a permutation of range(n) that sorts xs (no stability promised)."""
    if isinstance(xs, SList):
        from . import slist

        return slist.argsort(interp, xs)
    xs = interp.iterate(xs)
    n = len(xs)
    if not is_symbolic(xs):
        return list(np.argsort(xs))
    sig = [SV(z3.Int(fresh_name("argsort")), "int") for _ in range(n)]
    for s_ in sig:
        interp.ctx.assume(z3.And(s_.z >= 0, s_.z < n))
    if n > 1:
        interp.ctx.assume(z3.Distinct(*[s_.z for s_ in sig]))
    vals = [select(interp, xs, s_) for s_ in sig]
    for u, v in zip(vals, vals[1:]):
        interp.ctx.assume(to_z3(u) <= to_z3(v))
    interp.ctx.ghost.setdefault("externals", set()).add("np.argsort: returns a permutation of range(n) that sorts its argument")
    return sig


@model(np.unique)
def _unique(interp, xs, return_index=False, **kw):
    """np.unique on scalars: sorted distinct values (and the index of each value's first occurrence)."""
    if kw:
        raise Unsupported("np.unique options")
    xs = interp.iterate(xs)
    reps = []  # (value, first index)
    for i, x in enumerate(xs):
        dup = False
        for v, _ in reps:
            eq = as_bool_sv(interp, interp.compare(ast.Eq(), x, v))
            if eq is True or (isinstance(eq, SV) and interp.ctx.branch(eq, "unique-dedup")):
                dup = True
                break
        if not dup:
            reps.append((x, i))
    n = len(reps)
    sig = [SV(z3.Int(fresh_name("uniqperm")), "int") for _ in range(n)]
    for s_ in sig:
        interp.ctx.assume(z3.And(s_.z >= 0, s_.z < n))
    if n > 1:
        interp.ctx.assume(z3.Distinct(*[s_.z for s_ in sig]))
    vals = [select(interp, [v for v, _ in reps], s_) for s_ in sig]
    for u, v in zip(vals, vals[1:]):
        interp.ctx.assume(to_z3(u) < to_z3(v))
    if not return_index:
        return vals
    idx = [select(interp, [i for _, i in reps], s_) for s_ in sig]
    return (vals, idx)
