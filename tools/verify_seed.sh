#!/bin/sh
# tools/verify_seed.sh <id> <srcdir> : confirm a seeded change in a scratch worktree, then store it in seeded/<id>
ID=$1; SRC=$2
WT=/tmp/wt/verify_$ID
OUT=/verif/seeded/$ID
mkdir -p /tmp/wt "$OUT"
git -C /repo worktree add -q --detach "$WT" HEAD || exit 3
mkdir -p "$WT/_seeded" && cp "$SRC"/* "$WT/_seeded/"
cd "$WT" || exit 3
export TMPDIR="$WT/_tmp"; mkdir -p "$TMPDIR"
/venv/bin/python _seeded/demo.py > "$OUT/demo_unchanged.log" 2>&1; A=$?
git apply _seeded/patch.diff || { echo "patch does not apply"; A=99; }
/venv/bin/python _seeded/demo.py > "$OUT/demo_changed.log" 2>&1; B=$?
/venv/bin/python -m pytest -q -p no:cacheprovider --timeout=900 -n 6 test/ > "$OUT/tests_changed.log" 2>&1; T=$?
TAIL=$(tail -1 "$OUT/tests_changed.log")
FAILED=$(grep -E "^FAILED" "$OUT/tests_changed.log" | tr '\n' ';')
SRC=$(cd /verif && realpath "$SRC"); cp "$SRC/patch.diff" "$SRC/demo.py" "$OUT/"
cp "$SRC/meta.json" "$OUT/agent_meta.json"
cd /; git -C /repo worktree remove --force "$WT"; rm -rf "$WT"
echo "{\"id\": \"$ID\", \"demo_unchanged_exit\": $A, \"demo_changed_exit\": $B, \"tests_exit\": $T, \"tests_summary\": \"$TAIL\", \"tests_failed\": \"$FAILED\"}" > "$OUT/confirm.json"
cat "$OUT/confirm.json"
