#!/bin/sh
# tools/collect_seed.sh <id> : take a finished seed agent's deliverables out of its worktree, remove the worktree, confirm
ID=$1
mkdir -p /tmp/wt/src_$ID && cp /tmp/wt/$ID/_seeded/* /tmp/wt/src_$ID/ || exit 3
git -C /repo worktree remove --force /tmp/wt/$ID; rm -rf /tmp/wt/$ID
/verif/tools/verify_seed.sh $ID /tmp/wt/src_$ID > /tmp/wt/verify_$ID.log 2>&1
cat /tmp/wt/verify_$ID.log
