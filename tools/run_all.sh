#!/bin/sh
# run every claimed check (quick tier by default), print one line each
cd /verif || exit 3
TIER=${1:-quick}
for p in $(python3 -c "import json;print(' '.join(c['property_id'] for c in json.load(open('MANIFEST.json'))['checks']))"); do
  out=$(./check $p --tier $TIER 2>&1); rc=$?
  echo "$p exit=$rc $(echo "$out" | grep '^\[' | tail -1)"
  [ $rc -ne 0 ] && echo "$out" | grep -E "VIOLATION|UNDECIDED|ERROR" | head -5
done
