import json, sys
pid = sys.argv[1]; wt = sys.argv[2]
variant = sys.argv[3] if len(sys.argv) > 3 else ""
for l in open('/verif/properties.jsonl'):
    p = json.loads(l)
    if p['id'] == pid: break
print(f"""You are helping test a verification tool by producing a realistic *property-breaking change* to the FEniCS/ffcx repository (FFCx: a Python compiler from UFL variational forms to C kernels, JIT-built via cffi).

You work ONLY in your own scratch git worktree of the repository: {wt}
(It already exists. Never touch /repo or /verif; do not read anything under /verif.) Python with all deps: /venv/bin/python (3.12). Run things with cwd={wt} so that `import ffcx` resolves to the worktree (check with `/venv/bin/python -c "import ffcx; print(ffcx.__file__)"` from that directory). No network.

The semantic property (this is all you get):
{json.dumps({k: p[k] for k in ('id','title','statement','quantifier','why_tests_cant','anchors')}, indent=1)}

Task: make a change to the ffcx source (Python files under {wt}/ffcx) that BREAKS this property, while
 (a) everything still imports/compiles, and
 (b) the existing test suite still passes unedited: `cd {wt} && /venv/bin/python -m pytest -q -p no:cacheprovider --timeout=900 -x -n 8 test/` if xdist is available, else without `-n 8` (takes ~4 min; `test_cmdline::test_cmdline_simple` is known to fail on the unchanged tree too - ignore it; all others must pass).
The change should look like a plausible developer mistake or well-meant refactoring (1-15 changed lines), NOT something ordinary use exposes at once: it should need something specific to manifest - an unusual input (particular cell type / restriction / element / id pattern / operand kind), a multi-step sequence, a fault at a particular point, or two cooperating sites that each look fine alone. {variant}

Deliver, inside {wt}/_seeded/ (create it):
  1. patch.diff  - `git -C {wt} diff -- ffcx > {wt}/_seeded/patch.diff` (only files under ffcx/)
  2. demo.py     - a small self-contained demonstration program (run as `cd <tree> && /venv/bin/python _seeded/demo.py` or given the tree path through cwd) that exits 0 on the unchanged code and exits non-zero (with a short message saying what went wrong) with your change applied. It must exercise the real ffcx code, and should show a behavioural consequence of the broken property (wrong numbers, wrong metadata, out-of-bounds index, nondeterminism, leaked state, ...), not merely grep the source.
  3. meta.json   - {{"property": "{pid}", "summary": "...what was changed...", "needs": "...what is needed for it to manifest...", "tests_run": "...command and result (counts)...", "demo_unchanged": "exit code/out", "demo_changed": "exit code/out"}}
Verify yourself: demo passes on unchanged code (use `git stash` or check before editing), fails with the change; the test-suite passes with the change. Remove any build outputs/caches you create outside {wt}. When finished reply with a 5-line summary (what you changed, what it needs to manifest, test result). Do not clean up the worktree itself.""")
