#!/bin/sh
# tools/run_seeds.sh [id ...] : apply each seeded change to /repo, run the quick checks of its property (and any extra
# properties listed in seeded/<id>/props), undo. Prints one line per (seed, property).
cd /verif || exit 3
IDS="$@"; [ -z "$IDS" ] && IDS=$(ls seeded)
for id in $IDS; do
  d=seeded/$id
  [ -f $d/patch.diff ] || continue
  props=$(cat $d/props 2>/dev/null || echo ${id%?})
  git -C /repo apply $PWD/$d/patch.diff || { echo "$id: patch does not apply"; continue; }
  for p in $props; do
    [ -f checks/$p.py ] || { echo "$id $p: no check"; continue; }
    out=$(./check $p --tier quick 2>&1); rc=$?
    nv=$(echo "$out" | grep -c '^VIOLATION')
    echo "$id $p: exit=$rc violations=$nv $(echo "$out" | grep '^VIOLATION' | head -1 | cut -c1-160)"
    echo "$out" > /tmp/wt/seedrun_${id}_$p.log
  done
  git -C /repo checkout -- .
done
