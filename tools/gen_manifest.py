#!/usr/bin/env python3
"""Writes MANIFEST.json from the table below (kept valid at all times)."""
import json
import os

HERE = os.path.dirname(os.path.dirname(os.path.abspath(__file__)))

# property -> (category, text, note, technique, design_ref)
CLAIMED = {
    "C01": ("proof", "FFCx-owned index/layout mechanisms that carry the cell-kernel equality are under contract: E1 proves the "
            "accessor/flattening contracts from source for all inputs; E2 proves, for every corpus kernel and all inputs/iterations, "
            "that every access stays in the UFCx extents. The numeric equality with the quadrature sum is checked, bounded, by E3 numeric: each corpus cell kernel on an affine simplex is executed on pseudo-random data and compared with an independent UFL/basix reference (never counted as proved).",
            "Undecided: UFL lowering, basix tabulation, C compiler, floating point. E2 is bounded over programs by the corpus. "
            "A-INT, A-FLOAT.", "sidecar contracts + VC generation from the Python AST (z3/cvc5); per-kernel SMT obligations over LNodes", "4 C01"),
    "C02": ("proof", "entity selection, '-' offsets of coordinate_dofs/w, table entity axis (E1, all inputs); extents of every facet/vertex "
            "kernel of the corpus with entity_local_index[r] < #entities (E2); E3 numeric (bounded) compares exterior/interior-facet simplex kernels, for every local facet (pair), with an independent reference integral over that facet of one/two explicit cells.",
            "Undecided: the numbers in geometry.py tables and the numeric value of the integral. Corpus-bounded over programs.",
            "sidecar contracts + VC generation from the Python AST (z3); per-kernel SMT obligations", "4 C02"),
    "C03": ("proof", "table permutation index selection quadrature_permutation[0|1] (E1); flag false implies no read of "
            "quadrature_permutation in every corpus kernel (E2); E3 numbering (bounded) executes interior-facet kernels for every pair of local vertex numberings of two 2D cells with the codes that make the points coincide and compares the physical results.",
            "Undecided: that the permutation codes mean what DOLFINx means (A-PERM); numeric invariance.",
            "sidecar contracts + VC generation (z3); per-kernel read-set obligations", "4 C03"),
    "C04": ("proof", "A extents num_points*components*dofs for every corpus expression kernel (E2); descriptor fields against UFL (E3, bounded); E3 numeric (bounded): every corpus expression kernel executed on pseudo-random data equals the original UFL expression evaluated at the points (cell points; facet points for every local facet and both interval permutation codes).",
            "The value of the expression is decided on the corpus only (bounded). Descriptor checks are bounded (corpus).",
            "per-kernel SMT obligations; run-time descriptor contracts (bounded)", "4 C04"),
    "C05": ("proof", "w/c accessors add exactly the coefficient/constant offset (E1); in every corpus kernel the w reads that flow into A lie "
            "inside enabled coefficients' ranges computed from UFL, c reads inside sum of constant sizes (E2); enabled_coefficients / "
            "original positions emitted as UFL gives them (E3, bounded); E3 numeric (bounded) packs w and c by the documented layout and compares with the reference integral.",
            "Undecided: UFL's reduced/enabled sets themselves. Corpus-bounded over programs.",
            "sidecar contracts + VC generation (z3); per-kernel def-use/read-set SMT obligations", "4 C05"),
    "C06": ("proof", "integral_data proved for lists of ANY length with the list algebra of pyvc/slist.py (length, per-type sortedness for an "
            "arbitrary index, paired gather through one argsort permutation, offsets = number of kernels per type), type order equals the "
            "ufcx enum (exhaustive), everywhere integrals not appended (syntactic); additionally every shape with <=3 integrals "
            "(structurally bounded), the _compute_form_ir list-building fragment, descriptor arrays vs UFL on every corpus module (bounded).",
            "np.argsort external contract; list lemmas L-LIST/L-GATHER/L-PERMSUM are textbook facts recorded as assumptions; UFL grouping trusted.",
            "VC generation from the Python AST with a symbolic-length list algebra (z3) + exhaustive finite checks + run-time descriptor contracts", "4 C06"),
    "C07": ("proof", "frame/purity/accumulate obligations on every corpus kernel: only += on A, A never read, inputs never written, "
            "static only with const, temporaries declared inside the kernel (E2).",
            "C semantics of restrict/automatic storage trusted; corpus-bounded over programs.", "per-kernel obligations over the LNodes program", "4 C07"),
    "C08": ("proof", "accessor contracts give in-range indices symbolically (E1); every array access of every corpus kernel proved inside "
            "the extents computed from UFL + ufcx.h, for all iterations and all valid entity/permutation values; cell kernels never "
            "dereference entity/permutation pointers (E2); E3 tables (bounded): run-time contract on build_optimized_tables - permutation axis has 1 or the full number of codes, offsets as specified.",
            "Corpus-bounded over programs; extents oracle from UFL form data; A-INT.", "sidecar contracts + VC generation (z3); per-kernel SMT interval obligations", "4 C08"),
    "C09": ("proof", "dtype->C type maps, REAL/SCALAR type names, math-function names for every emittable function x 4 scalar types x "
            "argument type against the C99 naming scheme, complex literal form (exhaustive on the real formatter); merge_dtypes and "
            "_math_function simplifications (E1); conj/sum/product/division factorisation handlers as coefficient-wise identities on "
            "real UFL operands with symbolic complex values (E1, structurally bounded shapes); complex_mode switch (syntactic); slot "
            "selection on corpus modules (bounded); E2 type-sound obligation on every corpus kernel (no SCALAR value stored in REAL storage); E3 numeric (complex kernels vs a reference evaluated in complex arithmetic) and E3 metamorphic (real data: scalar types agree to the narrower precision), both bounded.",
            "Numeric agreement is decided only on the corpus (bounded); UFL's complex_mode lowering is used by the reference too; C99 naming as oracle.",
            "exhaustive finite enumeration on the real formatter + VC generation from the Python AST (z3)", "4 C09"),
    "C10": ("proof", "tensor-product quadrature is the row-major product of the 1D rules (E1), tensor_shape under part=diagonal (E1), "
            "sum factorisation restricted to cell integrals (syntactic), full table = outer product of factor tables and blockmaps on "
            "corpus IRs (bounded), extents/frame of every corpus kernel generated with sum_factorization=True and part=diagonal (E2); E3 metamorphic (bounded): kernels generated with sum_factorization on/off and part=diagonal/full are executed on identical pseudo-random non-affine data and compared.",
            "Equality of the tensors under the options is decided only on the corpus (bounded); options that do not apply have no effect: exhaustive over a listed set of (form, integral, option) cases on the real pipeline (identical kernel text with and without the option).",
            "VC generation (z3) + per-kernel SMT obligations + run-time IR invariants (bounded)", "4 C10"),
    "C11": ("proof", "each integral of a group keeps its own degree/scheme (E1 fragment of _analyze_form); every contribution to A of every "
            "corpus kernel depends on tables of its own quadrature rule (E2 rule-consistency); E3 numeric (bounded) compares multi-rule corpus kernels with a reference that integrates each integrand with its own rule.",
            "Exactness of basix rules and UFL degree estimation external; corpus-bounded over programs.",
            "fragment contracts + VC generation (z3); per-kernel def-use obligations", "4 C11"),
    "C12": ("other", "every syntactic source of seed-/history-dependence (set construction, id, hash, ufl_id, count, module-level mutable "
            "state) in the code-generation modules is discharged by a recorded reason (exhaustive over AST sites); second half bounded: "
            "corpus modules regenerated in fresh processes with other hash seeds and histories are byte-identical.",
            "Site discharge reasons are reviewed by hand (trusted); determinism of UFL/basix/numpy assumed.",
            "syntactic information-flow obligations over the AST + subprocess regeneration (bounded)", "4 C12"),
    "C13": ("proof", "_compute_option_signature injective on all 256 settings of the code-selecting options and independent of insertion "
            "order (exhaustive, real function); compute_signature separates sampled forms/tags/point sets; names are identifiers; object "
            "names distinct in every corpus module (bounded); names of 40 sampled requests equal in a fresh process and after a history of released objects, incl. expressions over two meshes created in opposite orders (bounded).",
            "sha1 and UFL signatures external.",
            "exhaustive finite enumeration on the real functions + bounded pair checks", "4 C13"),
    "C18": ("proof", "numba formatter round trip for every constructible depth-2 tree and for the depth-3 family operator pair x sensitive child (exhaustive, Python ast); integral_data contract "
            "(shared with C); numba module valid Python, descriptors equal to the C module's, declared array sizes cover the UFCx extents "
            "on every corpus file (bounded); E3 numba execution (bounded): the emitted Python text of every corpus kernel is executed under CPython (stub numba.carray) and gives the same tensor as the LNodes program under C semantics.",
            "numba's own compilation is not exercised (numba is not installed); numeric equality is decided on the corpus only.",
            "exhaustive finite enumeration with an independent parser + run-time descriptor contracts (bounded)", "4 C18"),
    "C14": ("proof", "per-process ordering contracts of the cache protocol proved on every control-flow path of the real jit.py "
            "functions, including every exceptional exit of the fault model: O1 lock before build, O2 marker only after the C "
            "compiler returned, O3 waiters load only after seeing the marker and never build, O7 builder loads after the build.",
            "Interleavings are covered only through L-RG (pen-and-paper) + file-system atomicity; liveness (all return within the "
            "timeout), importlib caching and kernel correctness are not decided.",
            "effect-trace contracts discharged by exhaustive path enumeration of the real source (E1 effect mode)", "4 C14"),
    "C15": ("proof", "O4 every exceptional exit of the build region renames the lock to .failed and re-raises the original exception, "
            "O5 root logger handlers and stdout restored on every exit, O3e exhausted poll ends in TimeoutError, O2 marker never "
            "without a complete build (hence crash-safe by L-RG) - on every path incl. fault points.",
            "Fault model and whitelist of total calls listed in the evidence; cffi's own rebuild behaviour not decided.",
            "effect-trace contracts discharged by exhaustive path enumeration of the real source (E1 effect mode)", "4 C15"),
    "C16": ("proof", "every constructible (parent class, operand position, child class) depth-2 tree of the real class table is formatted "
            "by the real C and numba formatters and parsed back with pycparser / Python ast to the same tree (exhaustive); the same for the depth-3 family (operator pair x children whose text starts/ends with a parenthesis, sign or operator; all children in the thorough tier); literal "
            "precision p decided arithmetically (5*10^-p <= 2^-53) and by reading back the real formatter's output for each of the four scalar types on a witness family.",
            "L-UNPARSE (depth-3 => all trees) is pen-and-paper; its premise (the text is op between the children in order, each child "
            "optionally parenthesised, the choice fixed by the classes) is discharged by E1 for every expression handler of both "
            "formatters; pycparser/CPython grammars trusted.",
            "exhaustive finite enumeration on the real formatters with independent parsers", "4 C16"),
    "C20": ("proof", "option precedence of get_options proved key-wise (E1, structurally bounded key set, not counted); the CLI forwards an "
            "option as priority iff given (exhaustive over all options with every choice / default / other / falsy value and pairs, real argparse parser); CLI and JIT use the same "
            "compile entry (syntactic); header/source pairing and aliases on every corpus module (bounded).",
            "argparse external; stand-alone compilation and numeric equality with the JIT not decided.",
            "VC generation from the Python AST (z3) + exhaustive finite enumeration on the real CLI parser", "4 C20"),
    "C17": ("proof", "all LExpr operator overloads proved value-preserving for all operand classes/values over the reals (E1, lazy "
            "initialisation of operands).", "A-FLOAT (0*x -> 0 etc. are identities over the reals); optimiser passes are validated per call on the corpus by exact rational "
            "evaluation (bounded), check_dependency exhaustively on generator shapes.",
            "sidecar contracts + VC generation from the Python AST (z3/cvc5)", "4 C17"),
    "C19": ("proof", "declared-once / in-scope / well-formedness obligations on every corpus kernel (E2).",
            "C compiler not run; corpus-bounded over programs.", "per-kernel scoping obligations over the LNodes program", "4 C19"),
}

REASON_NOT_YET = "check not built yet"


def main():
    checks = []
    for p in sorted(CLAIMED):
        cat, text, note, tech, ref = CLAIMED[p]
        if not os.path.exists(os.path.join(HERE, "checks", f"{p}.py")):
            continue
        checks.append(dict(
            property_id=p,
            quick_cmd=f"./check {p} --tier quick",
            thorough_cmd=f"./check {p} --tier thorough",
            evidence_file=f"evidence/{p}.json",
            replay_cmd_template=f"./check {p} --replay {{path}}",
            engine="pyvc+kernelvc",
            level_claimed=dict(category=cat, text=text, design_ref=f"DESIGN.md section {ref}"),
            level_note=note,
            technique=tech,
        ))
    claimed = {c["property_id"] for c in checks}
    na = [dict(property_id=f"C{i:02d}", reason=REASON_NOT_YET) for i in range(1, 21) if f"C{i:02d}" not in claimed]
    m = dict(
        version=1,
        setup_cmd="./setup.sh",
        hooks=dict(
            guard="FFCX_VERIF",
            enable="no source hooks: checks import ffcx from /repo's working tree and re-read its source files on every run; "
                   "contracts are sidecar files under /verif/contracts",
            baseline_off_cmd="cd /repo && /venv/bin/python -m pytest -ra -q -p no:cacheprovider --timeout=900 --continue-on-collection-errors",
            source_commits=[],
            add_only=True,
        ),
        engines=[
            dict(name="pyvc", path="pyvc/", serves_properties=sorted(claimed),
                 kind_free_text="E1: symbolic interpreter over the Python AST of the real functions, sidecar contracts, z3/cvc5"),
            dict(name="kernelvc", path="kernelvc/", serves_properties=["C01", "C02", "C03", "C04", "C05", "C07", "C08", "C19"],
                 kind_free_text="E2: SMT obligations over each LNodes kernel the real generators produce for a corpus of forms"),
            dict(name="runtime", path="runtime/", serves_properties=["C01", "C02", "C03", "C04", "C05", "C06", "C09", "C10", "C11", "C12", "C13", "C16", "C17", "C18", "C19", "C20"],
                 kind_free_text="E3: run-time contracts (bounded; never counted as proved): descriptor parse-back, kernel interpreter vs independent UFL/basix reference, option/numbering metamorphic checks, optimizer translation validation, determinism replay"),
        ],
        checks=checks,
        notes="Contract-based deductive verification; see DESIGN.md. Exit codes: 0 held, 1 violation, 2 undecided, 3 checker error.",
        not_applicable=na,
    )
    json.dump(m, open(os.path.join(HERE, "MANIFEST.json"), "w"), indent=1)
    print("claimed:", sorted(claimed))


if __name__ == "__main__":
    main()
