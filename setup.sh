#!/bin/sh
# Builds /verif/.venv offline: python 3.12 (from /venv) + solver wheels + a .pth exposing /venv's packages.
set -e
HERE="$(cd "$(dirname "$0")" && pwd)"
V="$HERE/.venv"
if [ -x "$V/bin/python" ] && "$V/bin/python" -c "import z3, cvc5, jsonschema, ffcx, ufl, basix" 2>/dev/null; then
  exit 0
fi
rm -rf "$V"
/venv/bin/python -m venv "$V"
PIP_NO_INDEX=1 "$V/bin/pip" install -q --no-index --find-links /opt/veriftools/wheels \
   z3-solver cvc5 jsonschema crosshair-tool deal icontract >/dev/null
SP="$("$V/bin/python" -c 'import sysconfig; print(sysconfig.get_paths()["purelib"])')"
echo "import site; site.addsitedir('/venv/lib/python3.12/site-packages')" > "$SP/zz_venv.pth"
"$V/bin/python" -c "import z3, cvc5, jsonschema, ffcx, ufl, basix; print('venv ok', z3.get_version_string())"
